package c12

import (
	"fmt"
	"reflect"
	"time"

	"example.com/scion-time/net/ntske"

	"verif.local/mc"
	"verif.local/sched"
	"verif.local/shim/vsync"
	"verif.local/world"
)

type pop struct {
	Get bool
	ID  int
}

type pres struct {
	ID int
	OK bool
	NB time.Duration // NotBefore relative to the bubble epoch
}

type pscen struct {
	name    string
	prefix  []time.Duration // advance, then Current, for each entry (negative: advance only)
	threads [][]pop
}

// values records, per execution, the key material seen under each identifier
// (random bytes: they differ between executions and are compared only within one).
type values struct {
	mu  chan struct{}
	byI map[int]map[string]bool
}

func newValues() *values {
	v := &values{mu: make(chan struct{}, 1), byI: map[int]map[string]bool{}}
	return v
}

func (v *values) note(k ntske.Key) {
	if v == nil {
		return
	}
	v.mu <- struct{}{}
	if v.byI[k.ID] == nil {
		v.byI[k.ID] = map[string]bool{}
	}
	v.byI[k.ID][string(k.Value)] = true
	<-v.mu
}

var seen *values

func doOp(p *ntske.Provider, o pop) pres {
	if o.Get {
		k, ok := p.Get(o.ID)
		if !ok {
			return pres{OK: false}
		}
		seen.note(k)
		return pres{ID: k.ID, OK: true, NB: k.Validity.NotBefore.Sub(world.Epoch)}
	}
	k := p.Current()
	seen.note(k)
	return pres{ID: k.ID, OK: true, NB: k.Validity.NotBefore.Sub(world.Epoch)}
}

func setup(sc pscen) *ntske.Provider {
	p := ntske.NewProvider()
	for _, d := range sc.prefix {
		if d < 0 {
			time.Sleep(-d)
			continue
		}
		time.Sleep(d)
		p.Current()
	}
	return p
}

func final(p *ntske.Provider) []pres {
	var out []pres
	out = append(out, doOp(p, pop{}))
	for id := 0; id <= 5; id++ {
		out = append(out, doOp(p, pop{Get: true, ID: id}))
	}
	return out
}

func pmerges(ths [][]pop, f func(order [][2]int)) {
	pos := make([]int, len(ths))
	var cur [][2]int
	var rec func()
	rec = func() {
		done := true
		for i := range ths {
			if pos[i] < len(ths[i]) {
				done = false
				cur = append(cur, [2]int{i, pos[i]})
				pos[i]++
				rec()
				pos[i]--
				cur = cur[:len(cur)-1]
			}
		}
		if done {
			f(append([][2]int{}, cur...))
		}
	}
	rec()
}

type pout struct {
	Res   map[string]pres
	Final []pres
}

func pschedules(r *mc.Run) {
	day1 := day + 1
	scens := []pscen{
		{"renewal due: 3 threads", []time.Duration{-day1}, [][]pop{{{}, {}}, {{}, {Get: true, ID: 1}}, {{Get: true, ID: 2}, {}}}},
		{"renewal due: 2 threads x 3", []time.Duration{-day1}, [][]pop{{{}, {Get: true, ID: 2}, {}}, {{Get: true, ID: 1}, {}, {Get: true, ID: 2}}}},
		{"all keys expired", []time.Duration{day1, -(3*day + 1)}, [][]pop{{{Get: true, ID: 2}, {}}, {{}, {Get: true, ID: 1}}, {{Get: true, ID: 3}, {Get: true, ID: 2}}}},
		{"nothing due", []time.Duration{time.Hour}, [][]pop{{{}, {Get: true, ID: 1}}, {{Get: true, ID: 1}, {}}}},
	}
	for _, sc := range scens {
		var refs []pout
		pmerges(sc.threads, func(order [][2]int) {
			world.Run(r.T, &mc.X{}, func(w *world.World) {
				p := setup(sc)
				o := pout{Res: map[string]pres{}}
				for _, k := range order {
					o.Res[fmt.Sprintf("%d/%d", k[0], k[1])] = doOp(p, sc.threads[k[0]][k[1]])
				}
				o.Final = final(p)
				refs = append(refs, o)
			})
		})
		// the sequential runs above went through vsync without a scheduler: if the
		// provider tried a lock there, explore preemptions inside critical sections too
		if vsync.Adapt() {
			r.Extra["unlock_points"] = true
		}
		bound := -1
		if len(sc.threads) > 2 && !r.Thorough() {
			bound = 3
		}
		r.Explore(mc.Config{Name: "sched/" + sc.name, Bound: bound}, func(x *mc.X) {
			world.Run(r.T, x, func(w *world.World) {
				seen = newValues()
				defer func() { seen = nil }()
				p := setup(sc)
				s := sched.New(x)
				defer s.Close()
				res := make([][]pres, len(sc.threads))
				for ti, ops := range sc.threads {
					res[ti] = make([]pres, len(ops))
					s.Go(fmt.Sprintf("T%d", ti), func() {
						for oi, o := range ops {
							res[ti][oi] = doOp(p, o)
						}
					})
				}
				ok := s.Run()
				x.Transitions += int64(s.Steps)
				for _, t := range s.Threads() {
					if t.Panic != nil {
						f := mc.PanicFailure(t.Panic, t.Stack)
						x.Failf(f.Signature, "thread %s: %s", t.Name, f.Message)
					}
				}
				if !ok {
					x.Failf("deadlock", "no thread enabled but not all finished")
				}
				got := pout{Res: map[string]pres{}}
				for ti := range res {
					for oi := range res[ti] {
						got.Res[fmt.Sprintf("%d/%d", ti, oi)] = res[ti][oi]
					}
				}
				got.Final = final(p)
				for id, vs := range seen.byI {
					if len(vs) > 1 {
						x.Failf("key-id-two-values", "scenario %q: identifier %d was handed out with %d different key values (a cookie sealed under one of them cannot be opened through Get)", sc.name, id, len(vs))
					}
				}
				match := -1
				for i, ref := range refs {
					if reflect.DeepEqual(ref, got) {
						match = i
						break
					}
				}
				if match < 0 {
					x.Failf("not-equivalent-to-any-sequential-order", "scenario %q: results %+v final %+v match none of %d sequential orders", sc.name, got.Res, got.Final, len(refs))
				}
				x.Observe(match)
			})
		})
	}
}
