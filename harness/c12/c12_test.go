// C12: NTS server keys - the current key is always valid and fresh, lookups
// succeed only inside the validity period, identifiers never repeat
// (DESIGN.md C12). The real ntske.Provider runs inside a synctest bubble, so
// its time.Now is the explorer's virtual clock.
package c12

import (
	"bytes"
	"flag"
	"fmt"
	"sort"
	"sync"
	"testing"
	"time"

	"example.com/scion-time/net/ntske"

	"verif.local/mc"
	"verif.local/world"
)

var mode = flag.String("vmode", "seq", "seq|race|sched")

const (
	day      = 24 * time.Hour
	renewal  = day
	validity = 3 * day
)

var deltas = []time.Duration{time.Hour, 0, 1, day - 1, day, day + 1, 2*day - 1, 2 * day, 2*day + 1, 3*day - 1, 3 * day, 3*day + 1, 30 * day}

type keyRec struct {
	id         int
	gen        time.Time
	value      []byte
	lastIssued time.Time
}

type oracle struct {
	x      *mc.X
	keys   map[int]*keyRec
	maxID  int
	minGen time.Time
}

func (o *oracle) current(p *ntske.Provider) {
	now := time.Now()
	k := p.Current()
	o.x.Transitions++
	if now.Before(k.Validity.NotBefore) || now.After(k.Validity.NotAfter) {
		o.x.Failf("current-key-outside-validity", "at %v Current() returned key %d valid [%v,%v]", rel(now), k.ID, rel(k.Validity.NotBefore), rel(k.Validity.NotAfter))
	}
	if now.Sub(k.Validity.NotBefore) > renewal {
		o.x.Failf("current-key-older-than-renewal-interval", "at %v Current() returned key %d generated %v ago", rel(now), k.ID, now.Sub(k.Validity.NotBefore))
	}
	if k.Validity.NotAfter.Sub(k.Validity.NotBefore) != validity {
		o.x.Failf("key-validity-period", "key %d valid for %v", k.ID, k.Validity.NotAfter.Sub(k.Validity.NotBefore))
	}
	if len(k.Value) != 32 {
		o.x.Failf("key-length", "key %d has %d bytes", k.ID, len(k.Value))
	}
	rec, known := o.keys[k.ID]
	if known {
		if !bytes.Equal(rec.value, k.Value) || !rec.gen.Equal(k.Validity.NotBefore) {
			o.x.Failf("key-id-reused", "identifier %d handed out for two different keys", k.ID)
		}
	} else {
		if k.ID <= o.maxID {
			o.x.Failf("key-id-not-increasing", "new key has identifier %d after %d", k.ID, o.maxID)
		}
		if !k.Validity.NotBefore.Equal(now) && !(len(o.keys) == 0) {
			o.x.Failf("new-key-not-generated-now", "new key %d at %v has NotBefore %v", k.ID, rel(now), rel(k.Validity.NotBefore))
		}
		for _, other := range o.keys {
			if bytes.Equal(other.value, k.Value) {
				o.x.Failf("key-value-reused", "keys %d and %d have the same value", other.id, k.ID)
			}
		}
		rec = &keyRec{id: k.ID, gen: k.Validity.NotBefore, value: bytes.Clone(k.Value)}
		o.keys[k.ID] = rec
		o.maxID = k.ID
	}
	rec.lastIssued = now
}

// lookups: Get on every identifier seen and a few never issued.
func (o *oracle) lookups(p *ntske.Provider) {
	now := time.Now()
	ids := []int{0, -1, o.maxID + 1, 1 << 40}
	for id := range o.keys {
		ids = append(ids, id)
	}
	sort.Ints(ids)
	for _, id := range ids {
		k, ok := p.Get(id)
		o.x.Transitions++
		rec, issued := o.keys[id]
		switch {
		case !issued:
			if ok {
				o.x.Failf("get-unknown-id", "Get(%d) succeeded for an identifier never issued", id)
			}
		case ok:
			if now.After(rec.gen.Add(validity)) || now.Before(rec.gen) {
				o.x.Failf("get-outside-validity", "at %v Get(%d) returned a key generated %v ago", rel(now), id, now.Sub(rec.gen))
			}
			if k.ID != id || !bytes.Equal(k.Value, rec.value) || !k.Validity.NotBefore.Equal(rec.gen) {
				o.x.Failf("get-wrong-key", "Get(%d) returned key %d / different value", id, k.ID)
			}
		default:
			if !now.After(rec.lastIssued.Add(2 * day)) {
				o.x.Failf("key-retired-within-two-days-of-issue", "at %v Get(%d) failed, %v after the key was last handed out by Current (generated %v ago)", rel(now), id, now.Sub(rec.lastIssued), now.Sub(rec.gen))
			}
		}
	}
}

func rel(t time.Time) string { return fmt.Sprintf("T+%v", t.Sub(world.Epoch)) }

func (o *oracle) canon(now time.Time) []byte {
	var ids []int
	for id := range o.keys {
		ids = append(ids, id)
	}
	sort.Ints(ids)
	var b []byte
	for _, id := range ids {
		r := o.keys[id]
		if now.Sub(r.gen) > validity+day {
			continue // long expired keys behave alike (lookups fail, nothing else reads them)
		}
		b = fmt.Appendf(b, "(%d,%d,%d)", o.maxID-id, now.Sub(r.gen), now.Sub(r.lastIssued))
	}
	return b
}

func program(r *mc.Run, steps int, prune bool) func(x *mc.X) {
	return func(x *mc.X) {
		world.Run(r.T, x, func(w *world.World) {
			p := ntske.NewProvider()
			o := &oracle{x: x, keys: map[int]*keyRec{}}
			o.current(p)
			o.lookups(p)
			for s := 0; s < steps; s++ {
				if prune {
					x.Visit(fmt.Appendf(o.canon(time.Now()), "#%d", steps-s))
				}
				d := deltas[x.Choose(len(deltas), "advance")]
				time.Sleep(d)
				x.Logf("advance %v -> %s", d, rel(time.Now()))
				if x.Choose(2, "op") == 0 {
					o.current(p)
					x.Logf("Current -> id %d", o.maxID)
				}
				o.lookups(p)
			}
			x.Observe(string(o.canon(time.Now())))
		})
	}
}

func TestCheck(t *testing.T) {
	mc.Main(t, "C12", func(r *mc.Run) {
		if *mode == "race" {
			racePass(r)
			return
		}
		if *mode == "sched" {
			pschedules(r)
			return
		}
		r.Explore(mc.Config{Name: "full", Bound: -1, Prune: true}, program(r, mc.Pick(r, 4, 4), true))
		r.Explore(mc.Config{Name: "dev", Bound: mc.Pick(r, 4, 5), Prune: true}, program(r, mc.Pick(r, 9, 11), true))
		r.Extra["rule"] = "histories of (advance by one of 13 durations around the 24 h / 48 h / 72 h thresholds, then Current or not), every identifier ever issued plus four never issued looked up after every step; all histories of 4 steps, all histories of 9 (11) steps within 4 (5) deviations from hourly Current calls; canonical-state pruning on (id distance, age, time since last issue) of the live keys"
	})
}

func racePass(r *mc.Run) {
	if r.Replaying() {
		return
	}
	p := ntske.NewProvider()
	var wg sync.WaitGroup
	n := mc.Pick(r, 20000, 200000)
	for g := 0; g < 8; g++ {
		wg.Add(1)
		go func() {
			defer wg.Done()
			for i := 0; i < n; i++ {
				k := p.Current()
				if _, ok := p.Get(k.ID); !ok {
					panic("current key not found")
				}
				p.Get(k.ID - 1)
			}
		}()
	}
	wg.Wait()
	r.Evals += int64(8 * n * 3)
	r.Distinct += int64(8 * n)
	r.Sample(map[string]any{"goroutines": 8, "iterations": n})
}
