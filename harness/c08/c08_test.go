// C08: no network input can crash or hang a listener or a client (DESIGN.md
// C08). Every target runs as real code over the in-memory network; the input
// space is a finite, structure-aware mutation space (truncations, byte values,
// 16-bit fields, small TLV grammars, SCION header variations). After each
// crafted input a well-formed sentinel must still be handled.
package c08

import (
	"bytes"
	"context"
	"crypto/tls"
	"encoding/binary"
	"flag"
	"fmt"
	"net"
	"net/netip"
	"os"
	"strings"
	"testing"
	"time"

	"github.com/scionproto/scion/pkg/slayers"

	"example.com/scion-time/core/client"
	"example.com/scion-time/core/server"
	"example.com/scion-time/net/csptp"
	"example.com/scion-time/net/ntp"
	"example.com/scion-time/net/nts"
	"example.com/scion-time/net/ntske"
	"example.com/scion-time/net/scion"
	"example.com/scion-time/net/udp"

	"verif.local/kit"
	"verif.local/mc"
	"verif.local/shim/vnet"
	"verif.local/world"
)

var only = flag.String("vtarget", "", "run only this target")

type input struct {
	Target string `json:"target"`
	Seed   string `json:"seed"`
	Mut    string `json:"mutation"`
	Hex    string `json:"hex"`
}

// lengthLike returns the positions of m holding a 16-bit value that could be a
// length field of this message (8 <= v <= len(m)).
func lengthLike(m []byte) []int {
	var ps []int
	for i := 0; i+1 < len(m); i++ {
		if v := int(binary.BigEndian.Uint16(m[i:])); v >= 8 && v <= len(m) {
			ps = append(ps, i)
		}
	}
	return ps
}

// shortened returns m with the length-like fields at ps reduced by d (nil if one would go negative).
func shortened(m []byte, ps []int, d int) []byte {
	c := bytes.Clone(m)
	for _, p := range ps {
		v := int(binary.BigEndian.Uint16(m[p:])) - d
		if v < 0 {
			return nil
		}
		binary.BigEndian.PutUint16(c[p:], uint16(v))
	}
	return c
}

// consistentTruncations: every truncation whose length-like fields (each one
// alone, and all together) announce the truncated length, i.e. a short datagram
// that is self-consistent. full is the untruncated datagram with the same
// rewritten fields (what a receive buffer may still hold from before).
func consistentTruncations(m []byte, f func(name string, full, b []byte)) {
	ps := lengthLike(m)
	for n := 0; n < len(m); n++ {
		var in []int
		for _, p := range ps {
			if p+2 <= n {
				in = append(in, p)
			}
		}
		for _, p := range in {
			if c := shortened(m, []int{p}, len(m)-n); c != nil {
				f(fmt.Sprintf("trunc=%d,u16[%d]-=%d", n, p, len(m)-n), c, c[:n])
			}
		}
		if len(in) > 1 {
			if c := shortened(m, in, len(m)-n); c != nil {
				f(fmt.Sprintf("trunc=%d,all-lengths-=%d", n, len(m)-n), c, c[:n])
			}
		}
		if len(in) == 0 && len(ps) > 0 {
			// the announcing field itself is cut off: only a stale copy can supply it
			if c := shortened(m, ps, len(m)-n); c != nil {
				f(fmt.Sprintf("trunc=%d,stale-lengths-=%d", n, len(m)-n), c, c[:n])
			}
		}
	}
}

// variants enumerates the structure-blind mutation space of one message.
func variants(m []byte, dense bool, f func(name string, b []byte)) {
	for l := 0; l < len(m); l++ {
		f(fmt.Sprintf("trunc=%d", l), m[:l])
	}
	consistentTruncations(m, func(name string, _, b []byte) { f(name, b) })
	f("append-zero", append(bytes.Clone(m), 0))
	f("append-4", append(bytes.Clone(m), 0, 0, 0, 0))
	for i := range m {
		b := m[i]
		for _, v := range []byte{0x00, 0x01, 0x7f, 0x80, 0xff, b ^ 1, b + 1} {
			if v == b {
				continue
			}
			c := bytes.Clone(m)
			c[i] = v
			f(fmt.Sprintf("byte[%d]=%#02x", i, v), c)
		}
	}
	step := 1
	if !dense {
		step = 2
	}
	for i := 0; i+1 < len(m); i += step {
		rest := len(m) - i
		for _, v := range []int{0, 1, 2, 3, 4, rest - 1, rest, rest + 1, 0x7fff, 0xffff} {
			if v < 0 {
				continue
			}
			c := bytes.Clone(m)
			binary.BigEndian.PutUint16(c[i:], uint16(v))
			if bytes.Equal(c, m) {
				continue
			}
			f(fmt.Sprintf("u16[%d]=%#x", i, v), c)
		}
	}
}

type seed struct {
	name string
	b    []byte
	// from: source of the datagram when it differs from the target's default
	from netip.AddrPort
}

type feeder struct {
	r       *mc.Run
	w       *world.World
	target  string
	n       int64
	stopped bool
	// delivered counts the crafted datagrams a client target actually read
	delivered int64
}

// over reports (once) that the internal deadline passed; enumerations stop there.
func (fd *feeder) over() bool {
	if fd.stopped {
		return true
	}
	if fd.n%256 == 0 && fd.r.Expired() {
		fd.stopped = true
		fd.r.NotExhaustive("deadline in target " + fd.target)
	}
	return fd.stopped
}

func (fd *feeder) fail(sd, mut string, b []byte, sig, msg string) {
	h := fmt.Sprintf("%x", b)
	if len(h) > 400 {
		h = h[:400] + "..."
	}
	fd.r.Fail(fd.target, sig, fmt.Sprintf("target %s, seed %s, mutation %s: %s", fd.target, sd, mut, msg), input{fd.target, sd, mut, fmt.Sprintf("%x", b)})
}

// checkPanics converts a recorded thread panic into a finding; returns true if there was one.
func (fd *feeder) checkPanics(sd, mut string, b []byte) bool {
	if len(fd.w.Panics) == 0 {
		return false
	}
	p := fd.w.Panics[0]
	fd.w.Panics = nil
	f := mc.PanicFailure(p.Value, p.Stack)
	fd.fail(sd, mut, b, f.Signature, f.Message)
	return true
}

// ---------------------------------------------------------------- listeners

type listener struct {
	name  string
	start func() *vnet.UDPConn
	sock  *vnet.UDPConn
	seeds []seed
	// exact inputs are sent as they are (no structure-blind variants)
	exact    []seed
	sentinel func() []byte
	// sentinelOK judges what the listener wrote for the sentinel.
	sentinelOK func(out []*vnet.Datagram) bool
	from       netip.AddrPort
}

func (fd *feeder) runListener(l *listener) {
	w := fd.w
	l.sock = l.start()
	send := func(b []byte) []*vnet.Datagram {
		before := w.Net.NumSent()
		l.sock.Deliver(&vnet.Datagram{From: l.from, To: l.sock.Local(), Data: b, RxTime: w.Clock.Peek()})
		w.Settle()
		return w.Net.SentSince(before)
	}
	for _, sd := range l.exact {
		if fd.over() {
			break
		}
		fd.n++
		fd.r.Journal(fmt.Sprintf("%s %s exact", l.name, sd.name))
		fd.r.Evals++
		fd.r.Distinct++
		reads := l.sock.Reads.Load()
		send(sd.b)
		if fd.checkPanics(sd.name, "exact", sd.b) {
			l.sock = l.start()
			continue
		}
		if l.sock.Reads.Load() != reads+1 || !l.sock.Reading.Load() {
			fd.fail(sd.name, "exact", sd.b, "listener-not-back-in-read", "the receive loop did not return to its read")
			l.sock = l.start()
			continue
		}
		out := send(l.sentinel())
		if fd.checkPanics(sd.name, "exact+sentinel", sd.b) {
			l.sock = l.start()
			continue
		}
		if !l.sentinelOK(out) {
			fd.fail(sd.name, "exact", sd.b, "sentinel-not-answered", fmt.Sprintf("after the crafted datagram the well-formed request got %d datagrams", len(out)))
		}
	}
	for _, sd := range l.seeds {
		variants(sd.b, fd.r.Thorough(), func(mut string, b []byte) {
			if fd.over() {
				return
			}
			fd.n++
			fd.r.Journal(fmt.Sprintf("%s %s %s", l.name, sd.name, mut))
			fd.r.Evals++
			fd.r.Distinct++
			reads := l.sock.Reads.Load()
			send(b)
			if fd.checkPanics(sd.name, mut, b) {
				l.sock = l.start()
				return
			}
			if l.sock.Reads.Load() != reads+1 || !l.sock.Reading.Load() {
				fd.fail(sd.name, mut, b, "listener-not-back-in-read", "the receive loop did not return to its read")
				l.sock = l.start()
				return
			}
			out := send(l.sentinel())
			if fd.checkPanics(sd.name, mut+"+sentinel", b) {
				l.sock = l.start()
				return
			}
			if !l.sentinelOK(out) {
				fd.fail(sd.name, mut, b, "sentinel-not-answered", fmt.Sprintf("after the crafted datagram the well-formed request got %d datagrams", len(out)))
			}
		})
		// receive buffers are reused: a short datagram right after a full one whose
		// length fields announce the short length (no sentinel in between)
		consistentTruncations(sd.b, func(mut string, full, b []byte) {
			if fd.over() {
				return
			}
			mut = "after-full:" + mut
			fd.n++
			fd.r.Journal(fmt.Sprintf("%s %s %s", l.name, sd.name, mut))
			fd.r.Evals++
			fd.r.Distinct++
			send(full)
			if fd.checkPanics(sd.name, mut+"(full)", full) {
				l.sock = l.start()
				return
			}
			reads := l.sock.Reads.Load()
			send(b)
			if fd.checkPanics(sd.name, mut, b) {
				l.sock = l.start()
				return
			}
			if l.sock.Reads.Load() != reads+1 || !l.sock.Reading.Load() {
				fd.fail(sd.name, mut, b, "listener-not-back-in-read", "the receive loop did not return to its read")
				l.sock = l.start()
				return
			}
			out := send(l.sentinel())
			if fd.checkPanics(sd.name, mut+"+sentinel", b) {
				l.sock = l.start()
				return
			}
			if !l.sentinelOK(out) {
				fd.fail(sd.name, mut, b, "sentinel-not-answered", fmt.Sprintf("after the crafted datagrams the well-formed request got %d datagrams", len(out)))
			}
		})
		// the unmutated seed itself
		send(sd.b)
		fd.checkPanics(sd.name, "none", sd.b)
	}
}

// sealedRequests: NTS requests whose authenticator verifies under the session's
// client-to-server key (any peer can obtain a cookie and that key from the key
// exchange) but whose other fields are not what the project's encoder produces:
// unique identifiers of every length class, 0..2 cookies, truncated / padded
// cookies, placeholder counts and body lengths, unknown fields, reordered
// fields, encrypted fields in the authenticator.
func sealedRequests(sess *kit.Session, hdr []byte) []seed {
	var ss []seed
	ck := sess.Cookie()
	uid := func(n int) kit.Ext { return kit.Ext{Type: 0x0104, Body: bytes.Repeat([]byte{0x3d}, n)} }
	cookie := func(b []byte) kit.Ext { return kit.Ext{Type: 0x0204, Body: b} }
	ph := func(n int) kit.Ext { return kit.Ext{Type: 0x0304, Body: make([]byte, n)} }
	add := func(name string, plain []byte, fs ...kit.Ext) {
		b := kit.Seal(hdr, fs, plain, sess.C2S, byte(len(ss)))
		if len(b) <= 2040 {
			ss = append(ss, seed{name: "sealed:" + name, b: b})
		}
	}
	for _, n := range []int{0, 1, 4, 16, 28, 31, 32, 33, 36, 64, 128, 300, 500, 700, 800, 900, 1000, 1200, 1600, 1800} {
		add(fmt.Sprintf("uid=%d", n), nil, uid(n), cookie(ck))
		add(fmt.Sprintf("uid=%d,placeholders=7", n), nil, append([]kit.Ext{uid(n), cookie(ck)}, repeatExt(ph(len(ck)), 7)...)...)
	}
	for _, np := range []int{1, 2, 6, 7, 8, 9, 12, 14} {
		for _, pl := range []int{0, 4, len(ck), len(ck) + 4, 300} {
			add(fmt.Sprintf("placeholders=%dx%d", np, pl), nil, append([]kit.Ext{uid(32), cookie(ck)}, repeatExt(ph(pl), np)...)...)
		}
	}
	add("no-cookie", nil, uid(32))
	add("two-cookies", nil, uid(32), cookie(ck), cookie(sess.Cookie()))
	add("cookie-first", nil, cookie(ck), uid(32))
	add("no-uid", nil, cookie(ck))
	add("two-uids", nil, uid(32), uid(32), cookie(ck))
	add("cookie-truncated", nil, uid(32), cookie(ck[:50]))
	add("cookie-padded", nil, uid(32), cookie(append(bytes.Clone(ck), make([]byte, 100)...)))
	add("cookie-huge", nil, uid(32), cookie(append(bytes.Clone(ck), make([]byte, 900)...)))
	add("cookie-empty", nil, uid(32), cookie(nil))
	add("unknown-field", nil, uid(32), cookie(ck), kit.Ext{Type: 0x4242, Body: make([]byte, 40)})
	add("unknown-field-large", nil, uid(32), cookie(ck), kit.Ext{Type: 0x4242, Body: make([]byte, 700)})
	add("unknown-critical-first", nil, kit.Ext{Type: 0x8242, Body: make([]byte, 8)}, uid(32), cookie(ck))
	add("encrypted-field", kit.EncodeExt(kit.Ext{Type: 0x0204, Body: make([]byte, 100)}), uid(32), cookie(ck))
	add("encrypted-garbage", []byte{1, 2, 3, 4, 5}, uid(32), cookie(ck))
	add("only-authenticator", nil)
	return ss
}

func repeatExt(e kit.Ext, n int) []kit.Ext {
	out := make([]kit.Ext, n)
	for i := range out {
		out[i] = e
	}
	return out
}

func scionSeeds(w *world.World, sess *kit.Session, d *kit.FakeDaemon, dstPort uint16) []seed {
	hdr := kit.ClientHeader(w.Clock.Peek())
	key := d.HostHostKey(kit.SrvIA, kit.CliIA, kit.SrvHost.String(), kit.CliHost.String())
	base := func() *kit.Pkt {
		return &kit.Pkt{SrcIA: kit.CliIA, DstIA: kit.SrvIA, SrcHost: kit.CliHost, DstHost: kit.SrvHost, Path: kit.PathSpec{Kind: "empty"}, L4: "udp", SrcPort: 40123, DstPort: dstPort, Payload: hdr}
	}
	var ss []seed
	add := func(name string, f func(p *kit.Pkt)) {
		p := base()
		f(p)
		ss = append(ss, seed{name: name, b: p.Bytes()})
	}
	add("ntp-empty-path", func(p *kit.Pkt) {})
	add("ntp-scion-path", func(p *kit.Pkt) { p.Path = kit.PathSpec{Kind: "scion", Segs: []int{2, 2}} })
	add("ntp-onehop", func(p *kit.Pkt) { p.Path = kit.PathSpec{Kind: "onehop"} })
	add("ntp-onehop-half", func(p *kit.Pkt) { p.Path = kit.PathSpec{Kind: "onehop-half"} })
	add("ntp-ipv6", func(p *kit.Pkt) {
		p.SrcHost, p.DstHost = netip.MustParseAddr("fd00::2"), netip.MustParseAddr("fd00::1")
	})
	add("ntp-auth", func(p *kit.Pkt) { p.AuthKey, p.AuthSPI = key, scion.PacketAuthSPIClient })
	add("ntp-hbh", func(p *kit.Pkt) { p.HBH = true })
	add("scmp-echo", func(p *kit.Pkt) { p.L4 = "scmp-echo"; p.Payload = []byte("0123456789abcdef") })
	add("scmp-traceroute-onehop-half", func(p *kit.Pkt) {
		p.L4 = "scmp-traceroute"
		p.Path = kit.PathSpec{Kind: "onehop-half"}
		p.Payload = []byte("0123456789abcdef")
	})
	if sess != nil {
		nreq, _ := sess.Request(hdr, 6)
		add("nts", func(p *kit.Pkt) { p.Payload = nreq })
	}
	// end-to-end option grammar: authenticator with every data length 0..40, the
	// timestamp option with control-message bodies, unknown options
	for l := 0; l <= 40; l++ {
		add(fmt.Sprintf("authopt-len=%d", l), func(p *kit.Pkt) {
			data := make([]byte, l)
			if l >= 5 {
				binary.BigEndian.PutUint32(data, scion.PacketAuthSPIClient)
				data[4] = scion.PacketAuthAlgorithm
			}
			p.E2E = []*slayers.EndToEndOption{{OptType: slayers.OptTypeAuthenticator, OptData: data}}
		})
	}
	for i, body := range cmsgBodies() {
		add(fmt.Sprintf("tsopt-%d", i), func(p *kit.Pkt) {
			p.E2E = []*slayers.EndToEndOption{{OptType: scion.OptTypeTimestamp, OptData: body}}
		})
	}
	add("unknown-opt", func(p *kit.Pkt) {
		p.E2E = []*slayers.EndToEndOption{{OptType: 77, OptData: []byte{1, 2, 3}}, {OptType: slayers.OptTypePad1}}
	})
	return ss
}

// cmsgBodies: control-message buffers as they may appear in the SCION
// timestamp option (valid, unaligned lengths, both slots set, truncated).
func cmsgBodies() [][]byte {
	ts := time.Date(2024, 1, 1, 0, 0, 0, 5, time.UTC)
	valid := vnet.TimestampingCmsg(ts)
	out := [][]byte{valid, {}, valid[:15], valid[:16], valid[:17], valid[:63]}
	both := vnet.TimestampingCmsgSlots([6]int64{1, 2, 0, 0, 3, 4})
	mid := vnet.TimestampingCmsgSlots([6]int64{0, 0, 5, 6, 0, 0})
	out = append(out, both, mid)
	for _, l := range []uint64{0, 1, 15, 16, 17, 23, 24, 63, 65, 70, 1 << 40} {
		c := bytes.Clone(valid)
		binary.LittleEndian.PutUint64(c, l)
		out = append(out, c)
	}
	for _, typ := range []uint32{35 /* SCM_TIMESTAMPNS */, 0, 65, 999} {
		c := bytes.Clone(valid)
		binary.LittleEndian.PutUint32(c[12:], typ)
		out = append(out, c, c[:32], c[:33])
	}
	// two messages, the second malformed
	out = append(out, append(vnet.Cmsg(1, 99, []byte{1, 2, 3}), valid...), append(vnet.Cmsg(1, 99, []byte{1, 2, 3}), valid[:20]...))
	// a receive time long before the transmit time
	old := vnet.TimestampingCmsg(time.Date(1990, 1, 1, 0, 0, 0, 0, time.UTC))
	out = append(out, old)
	return out
}

func listeners(fd *feeder) []*listener {
	w := fd.w
	prov := ntske.NewProvider()
	sess := &kit.Session{C2S: bytes.Repeat([]byte{7}, 32), S2C: bytes.Repeat([]byte{9}, 32), Provider: prov}
	hdr := kit.ClientHeader(w.Clock.Peek())
	nts8, _ := sess.Request(hdr, 8)
	nts3, _ := sess.Request(hdr, 3)
	var ls []*listener
	// --- IP
	ipAddr := netip.MustParseAddrPort("10.0.0.1:123")
	ls = append(ls, &listener{
		name: "ip-listener", from: netip.MustParseAddrPort("10.9.9.9:4000"),
		start: func() *vnet.UDPConn {
			lc := vnet.ListenConfig{}
			pc, _ := lc.ListenPacket(context.Background(), "udp", ipAddr.String())
			c := pc.(*vnet.UDPConn)
			world.FreshRegistry()
			w.Go("ipserver", func() { server.VerifRunIPServer(context.Background(), w.Log, c, "", 0, prov) })
			w.Settle()
			return c
		},
		seeds:      []seed{{name: "ntp", b: hdr}, {name: "nts-level8", b: nts8}, {name: "nts-level3", b: nts3}},
		exact:      sealedRequests(sess, hdr),
		sentinel:   func() []byte { return kit.ClientHeader(w.Clock.Peek()) },
		sentinelOK: func(out []*vnet.Datagram) bool { return len(out) == 1 },
	})
	// --- SCION, three roles
	d := &kit.FakeDaemon{}
	mk := func(name string, port, localHostPort int, withAuth bool, seedPort uint16, sentinelPort uint16, wantSentinel int) *listener {
		return &listener{
			name: name, from: kit.Router,
			start: func() *vnet.UDPConn {
				lc := vnet.ListenConfig{}
				pc, _ := lc.ListenPacket(context.Background(), "udp", netip.AddrPortFrom(kit.SrvHost, uint16(port)).String())
				c := pc.(*vnet.UDPConn)
				var f *scion.Fetcher
				var p *ntske.Provider
				if withAuth {
					f, p = scion.NewFetcher(d), prov
				}
				world.FreshRegistry()
				w.Go("scionserver", func() {
					server.VerifRunSCIONServer(context.Background(), w.Log, c, "", localHostPort, 0, f, p)
				})
				w.Settle()
				return c
			},
			seeds: scionSeeds(w, map[bool]*kit.Session{true: sess, false: nil}[withAuth], d, seedPort),
			exact: func() []seed {
				if !withAuth {
					return nil
				}
				var ss []seed
				for _, sd := range sealedRequests(sess, hdr) {
					if len(sd.b) > 1300 {
						continue
					}
					pk := &kit.Pkt{SrcIA: kit.CliIA, DstIA: kit.SrvIA, SrcHost: kit.CliHost, DstHost: kit.SrvHost, Path: kit.PathSpec{Kind: "empty"}, L4: "udp", SrcPort: 40123, DstPort: seedPort, Payload: sd.b}
					ss = append(ss, seed{name: sd.name, b: pk.Bytes()})
				}
				return ss
			}(),
			sentinel: func() []byte {
				return (&kit.Pkt{SrcIA: kit.CliIA, DstIA: kit.SrvIA, SrcHost: kit.CliHost, DstHost: kit.SrvHost, Path: kit.PathSpec{Kind: "empty"}, L4: "udp", SrcPort: 40123, DstPort: sentinelPort, Payload: kit.ClientHeader(w.Clock.Peek())}).Bytes()
			},
			sentinelOK: func(out []*vnet.Datagram) bool { return len(out) == wantSentinel },
		}
	}
	ls = append(ls,
		mk("scion-service-port", kit.SrvPort, kit.SrvPort, true, kit.SrvPort, kit.SrvPort, 1),
		mk("scion-endhost-port", scion.EndhostPort, kit.SrvPort, true, 40555, 40555, 1),
		mk("scion-dispatcher", scion.EndhostPort, scion.EndhostPort, false, 40555, 40555, 1),
	)
	// --- CSPTP on both ports (the server side never answers yet: progress = back in its read)
	sync := make([]byte, csptp.MinMessageLength)
	csptp.EncodeMessage(sync, &csptp.Message{SdoIDMessageType: csptp.MessageTypeSync, PTPVersion: csptp.PTPVersion, MessageLength: csptp.MinMessageLength, FlagField: csptp.FlagTwoStep | csptp.FlagUnicast, SequenceID: 7, ControlField: csptp.ControlSync})
	fu := func(flags uint32) []byte {
		tlv := csptp.RequestTLV{Type: csptp.TLVTypeOrganizationExtension, OrganizationID: [3]uint8{csptp.OrganizationIDMeinberg0, csptp.OrganizationIDMeinberg1, csptp.OrganizationIDMeinberg2},
			OrganizationSubType: [3]uint8{csptp.OrganizationSubTypeRequest0, csptp.OrganizationSubTypeRequest1, csptp.OrganizationSubTypeRequest2}, FlagField: flags}
		n := csptp.EncodedRequestTLVLength(&tlv)
		tlv.Length = uint16(n)
		b := make([]byte, csptp.MinMessageLength+n)
		csptp.EncodeMessage(b, &csptp.Message{SdoIDMessageType: csptp.MessageTypeFollowUp, PTPVersion: csptp.PTPVersion, MessageLength: uint16(len(b)), FlagField: csptp.FlagUnicast, SequenceID: 7, ControlField: csptp.ControlFollowUp})
		csptp.EncodeRequestTLV(b[csptp.MinMessageLength:], &tlv)
		return b
	}
	for _, port := range []int{csptp.EventPortIP, csptp.GeneralPortIP} {
		ls = append(ls, &listener{
			name: fmt.Sprintf("csptp-port-%d", port), from: netip.MustParseAddrPort("10.9.9.9:319"),
			start: func() *vnet.UDPConn {
				lc := vnet.ListenConfig{}
				pc, _ := lc.ListenPacket(context.Background(), "udp", netip.AddrPortFrom(kit.SrvHost, uint16(port)).String())
				c := pc.(*vnet.UDPConn)
				w.Go("csptpserver", func() { server.VerifRunCSPTPServerIP(context.Background(), w.Log, c, "", port, 0) })
				w.Settle()
				return c
			},
			seeds:      []seed{{name: "sync", b: sync}, {name: "followup", b: fu(0)}, {name: "followup-ds", b: fu(csptp.TLVFlagServerStateDS)}},
			sentinel:   func() []byte { return sync },
			sentinelOK: func(out []*vnet.Datagram) bool { return true },
		})
	}
	return ls
}

// ---------------------------------------------------------------- NTS-KE handler

func keRecords() [][]byte {
	rec := func(t uint16, body []byte) []byte {
		b := make([]byte, 4, 4+len(body))
		binary.BigEndian.PutUint16(b, t)
		binary.BigEndian.PutUint16(b[2:], uint16(len(body)))
		return append(b, body...)
	}
	var rs [][]byte
	for _, t := range []uint16{0, 1, 2, 3, 4, 5, 6, 7, 0x4abc} {
		for _, crit := range []uint16{0, 1 << 15} {
			for _, body := range [][]byte{nil, {1}, {0, 15}, {1, 2, 3}} {
				rs = append(rs, rec(t|crit, body))
			}
		}
	}
	// declared length beyond the data
	rs = append(rs, []byte{0x80, 0x05, 0xff, 0xff, 1, 2, 3}, []byte{0x00, 0x06, 0x00, 0x10, 1})
	return rs
}

func (fd *feeder) runKE() {
	w := fd.w
	prov := ntske.NewProvider()
	recs := keRecords()
	try := func(name string, stream []byte, closeAfter bool) {
		if fd.over() {
			return
		}
		fd.n++
		fd.r.Journal("ntske-handler " + name)
		fd.r.Evals++
		fd.r.Distinct++
		c, s := w.Net.NewStreamPair(&net.TCPAddr{IP: net.IPv4(10, 0, 0, 2), Port: 50000}, &net.TCPAddr{IP: net.IPv4(10, 0, 0, 1), Port: 4460})
		th := w.Go("ntske-handler", func() {
			tc := tls.Server(s, kit.ServerTLS("ntske/1"))
			if err := tc.Handshake(); err != nil {
				return
			}
			server.VerifHandleKeyExchangeTLS(context.Background(), w.Log, tc, 123, prov)
		})
		cfg := kit.ClientTLS()
		cfg.NextProtos = []string{"ntske/1"}
		var tc *tls.Conn
		cl := w.Go("ke-client", func() {
			tc = tls.Client(c, &cfg)
			if err := tc.Handshake(); err != nil {
				return
			}
			tc.Write(stream)
			if closeAfter {
				tc.Close()
			}
		})
		w.Settle()
		if fd.checkPanics("ke", name, stream) {
			c.Close()
			w.Settle()
			return
		}
		if !th.Finished() {
			// the handler waits for more data: the peer goes away
			c.Close()
			w.Settle()
			fd.checkPanics("ke", name, stream)
			if !th.Finished() {
				fd.fail("ke", name, stream, "ntske-handler-stuck", "handler did not return after the peer closed the connection")
			}
		}
		_ = cl
	}
	// all sequences of up to 2 records (3 thorough) followed or not by end-of-message, cut at every byte
	eom := []byte{0x80, 0, 0, 0}
	depth := mc.Pick(fd.r, 2, 3)
	var rec func(prefix []byte, d int, name string)
	rec = func(prefix []byte, d int, name string) {
		for _, tail := range [][]byte{nil, eom} {
			s := append(bytes.Clone(prefix), tail...)
			try(fmt.Sprintf("%s eom=%v", name, tail != nil), s, true)
			try(fmt.Sprintf("%s eom=%v keepopen", name, tail != nil), s, false)
		}
		if d == depth {
			return
		}
		for i, r := range recs {
			if d >= 1 && i%3 != 0 && !fd.r.Thorough() {
				continue
			}
			rec(append(bytes.Clone(prefix), r...), d+1, fmt.Sprintf("%s,%d", name, i))
		}
	}
	rec(nil, 0, "recs")
	// the client's own request cut at every byte
	good := []byte{0x80, 1, 0, 2, 0, 0, 0x80, 4, 0, 2, 0, 15, 0x80, 0, 0, 0}
	for l := 0; l <= len(good); l++ {
		try(fmt.Sprintf("valid-cut@%d", l), good[:l], true)
		try(fmt.Sprintf("valid-cut@%d keepopen", l), good[:l], false)
	}
}

// ---------------------------------------------------------------- clients

type clientTarget struct {
	name string
	// start launches one measurement call on a thread and returns it.
	start func(ctx context.Context) *world.Thread
	// genuine builds the genuine response to the outstanding request d.
	genuine func(d *vnet.Datagram) (b []byte, from netip.AddrPort)
	// extra seeds derived from the genuine response
	extra func(d *vnet.Datagram, genuine []byte) []seed
	// exact responses built for the outstanding request and sent as they are
	exact func(d *vnet.Datagram, genuine []byte) []seed
}

func (fd *feeder) runClient(ct *clientTarget) {
	w := fd.w
	seen := w.Net.NumSent()
	// one call per crafted datagram: the datagram is the first thing the client receives
	one := func(sdname, mut string, mk func(d *vnet.Datagram) ([]byte, netip.AddrPort)) {
		if fd.over() {
			return
		}
		if dbg := os.Getenv("C08_ONLY"); dbg != "" && sdname != "probe" && dbg != sdname+" "+mut {
			return
		}
		fd.n++
		fd.r.Journal(fmt.Sprintf("%s %s %s", ct.name, sdname, mut))
		fd.r.Evals++
		fd.r.Distinct++
		ctx, cancel := context.WithTimeout(context.Background(), time.Second)
		defer cancel()
		th := ct.start(ctx)
		w.Settle()
		if fd.checkPanics(sdname, mut+" (before any response)", nil) {
			return
		}
		var sock *vnet.UDPConn
		for _, s := range w.Net.Open() {
			if !s.Closed() && s.Reading.Load() && s.Local().Addr() == kit.CliHost {
				sock = s
			}
		}
		reqs := w.Net.SentSince(seen)
		seen += len(reqs)
		if sock == nil || len(reqs) == 0 {
			if !th.Finished() {
				w.Advance(2 * time.Second)
			}
			return
		}
		req := reqs[len(reqs)-1]
		b, from := mk(req)
		reads := sock.Reads.Load()
		sock.Deliver(&vnet.Datagram{From: from, To: sock.Local(), Data: b, RxTime: w.Clock.Peek()})
		w.Settle()
		if sock.Reads.Load() > reads {
			fd.delivered++
		}
		if fd.checkPanics(sdname, mut, b) {
			return
		}
		// the call must come back: let every remaining deadline pass
		for i := 0; i < 6 && !th.Finished(); i++ {
			w.Advance(time.Second)
			seen = w.Net.NumSent()
			if fd.checkPanics(sdname, mut, b) {
				return
			}
		}
		if !th.Finished() {
			fd.fail(sdname, mut, b, "client-call-does-not-return", "measurement call still blocked 6 s after its deadline")
		}
		seen = w.Net.NumSent()
	}
	// discover the seeds with a first, undisturbed call
	var seeds []seed
	one("probe", "genuine", func(d *vnet.Datagram) ([]byte, netip.AddrPort) {
		g, from := ct.genuine(d)
		seeds = append(seeds, seed{name: "genuine", b: g})
		if ct.extra != nil {
			seeds = append(seeds, ct.extra(d, g)...)
		}
		return g, from
	})
	if ct.exact != nil {
		var names []string
		one("probe", "genuine-for-exact", func(d *vnet.Datagram) ([]byte, netip.AddrPort) {
			g, from := ct.genuine(d)
			for _, e := range ct.exact(d, g) {
				names = append(names, e.name)
			}
			return g, from
		})
		for _, name := range names {
			one(name, "exact", func(d *vnet.Datagram) ([]byte, netip.AddrPort) {
				g, from := ct.genuine(d)
				for _, e := range ct.exact(d, g) {
					if e.name == name {
						return e.b, from
					}
				}
				return g, from
			})
			// a few undisturbed calls in between: what an accepted odd response left
			// in the client's state is used by later requests
			for k := 0; k < 2; k++ {
				one(name, fmt.Sprintf("exact, then genuine %d", k), func(d *vnet.Datagram) ([]byte, netip.AddrPort) { return ct.genuine(d) })
			}
		}
	}
	for _, sd := range seeds {
		// seeds are templates: the genuine response is rebuilt for every request and the
		// mutation re-applied by name (timestamps differ from call to call)
		variants(sd.b, fd.r.Thorough(), func(mut string, mb []byte) {
			one(sd.name, mut, func(d *vnet.Datagram) ([]byte, netip.AddrPort) {
				g, from := ct.genuine(d)
				cur := g
				if sd.name != "genuine" {
					for _, e := range ct.extra(d, g) {
						if e.name == sd.name {
							cur = e.b
							if e.from.IsValid() {
								from = e.from
							}
						}
					}
				}
				return applyMut(cur, mut), from
			})
		})
		one(sd.name, "none", func(d *vnet.Datagram) ([]byte, netip.AddrPort) {
			g, from := ct.genuine(d)
			cur := g
			if sd.name != "genuine" {
				for _, e := range ct.extra(d, g) {
					if e.name == sd.name {
						cur = e.b
						if e.from.IsValid() {
							from = e.from
						}
					}
				}
			}
			return cur, from
		})
	}
}

// applyMut re-applies a mutation produced by variants to a fresh template.
func applyMut(m []byte, mut string) []byte {
	var i, v int
	switch {
	case mut == "append-zero":
		return append(bytes.Clone(m), 0)
	case mut == "append-4":
		return append(bytes.Clone(m), 0, 0, 0, 0)
	}
	var d int
	if n, _ := fmt.Sscanf(mut, "trunc=%d,u16[%d]-=%d", &i, &v, &d); n == 3 {
		if c := shortened(m, []int{v}, d); c != nil && i <= len(c) {
			return c[:i]
		}
		return m
	}
	if n, _ := fmt.Sscanf(mut, "trunc=%d,all-lengths-=%d", &i, &d); n == 2 && strings.Contains(mut, "all-lengths") {
		var in []int
		for _, p := range lengthLike(m) {
			if p+2 <= i {
				in = append(in, p)
			}
		}
		if c := shortened(m, in, d); c != nil && i <= len(c) {
			return c[:i]
		}
		return m
	}
	if n, _ := fmt.Sscanf(mut, "trunc=%d,stale-lengths-=%d", &i, &d); n == 2 && strings.Contains(mut, "stale-lengths") {
		if i <= len(m) {
			return m[:i]
		}
		return m
	}
	if n, _ := fmt.Sscanf(mut, "trunc=%d", &i); n == 1 {
		if i > len(m) {
			i = len(m)
		}
		return m[:i]
	}
	if n, _ := fmt.Sscanf(mut, "byte[%d]=0x%x", &i, &v); n == 2 && i < len(m) {
		c := bytes.Clone(m)
		c[i] = byte(v)
		return c
	}
	if n, _ := fmt.Sscanf(mut, "u16[%d]=0x%x", &i, &v); n == 2 && i+1 < len(m) {
		c := bytes.Clone(m)
		binary.BigEndian.PutUint16(c[i:], uint16(v))
		return c
	}
	return m
}

func ntpReply(req []byte, now time.Time) []byte {
	var q, p ntp.Packet
	ntp.DecodePacket(&q, req)
	p.SetVersion(4)
	p.SetMode(ntp.ModeServer)
	p.Stratum = 1
	p.OriginTime = q.TransmitTime
	p.ReceiveTime = ntp.Time64FromTime(now)
	p.TransmitTime = ntp.Time64FromTime(now.Add(time.Microsecond))
	var b []byte
	ntp.EncodePacket(&b, &p)
	return b
}

func clientTargets(fd *feeder) []*clientTarget {
	w := fd.w
	srv := netip.MustParseAddrPort("10.0.0.1:123")
	var cts []*clientTarget
	// --- IP client, plain
	ipc := &client.IPClient{Log: w.Log, InterleavedMode: true}
	cts = append(cts, &clientTarget{
		name: "ip-client",
		start: func(ctx context.Context) *world.Thread {
			return w.Go("client", func() {
				client.MeasureClockOffsetIP(ctx, w.Log, ipc, &net.UDPAddr{IP: net.IPv4(10, 0, 0, 2)}, &net.UDPAddr{IP: net.IPv4(10, 0, 0, 1), Port: 123})
			})
		},
		genuine: func(d *vnet.Datagram) ([]byte, netip.AddrPort) { return ntpReply(d.Data, w.Clock.Peek()), srv },
	})
	// --- IP client with NTS: keys and pool from a real in-bubble key exchange
	nw := kit.NewNTSWorld(w)
	ntsc := &client.IPClient{Log: w.Log}
	ntsc.Auth.Enabled = true
	ntsc.Auth.NTSKEFetcher = kit.NewFetcher(w)
	cts = append(cts, &clientTarget{
		name: "ip-client-nts",
		start: func(ctx context.Context) *world.Thread {
			return w.Go("client", func() {
				client.MeasureClockOffsetIP(ctx, w.Log, ntsc, &net.UDPAddr{IP: net.IPv4(10, 0, 0, 2)}, &net.UDPAddr{IP: net.IPv4(10, 0, 0, 1), Port: 123})
			})
		},
		genuine: func(d *vnet.Datagram) ([]byte, netip.AddrPort) {
			out := nw.ToServer(d)
			if len(out) != 1 {
				return ntpReply(d.Data, w.Clock.Peek()), srv
			}
			return out[0].Data, srv
		},
		exact: func(d *vnet.Datagram, genuine []byte) []seed {
			// responses that verify under the server-to-client key and echo the request's
			// unique identifier, with cookies the project's server would never issue
			var req nts.Packet
			if nts.DecodePacket(&req, d.Data) != nil || len(genuine) < 48 {
				return nil
			}
			key := ntsc.Auth.NTSKEFetcher.VerifData().S2cKey
			uid := kit.Ext{Type: 0x0104, Body: req.UniqueID.ID}
			var ss []seed
			add := func(name string, plain []byte, fs ...kit.Ext) {
				if b := kit.Seal(genuine[:48], fs, plain, key, byte(len(ss))); len(b) <= 2040 {
					ss = append(ss, seed{name: "sealed:" + name, b: b})
				}
			}
			cookies := func(n, l int) []byte {
				var p []byte
				for i := 0; i < n; i++ {
					p = append(p, kit.EncodeExt(kit.Ext{Type: 0x0204, Body: bytes.Repeat([]byte{byte(0x50 + i)}, l)})...)
				}
				return p
			}
			for _, l := range []int{0, 1, 3, 4, 100, 104, 124, 300, 600, 860, 900, 1000, 1500} {
				for _, n := range []int{1, 2, 8} {
					add(fmt.Sprintf("cookies=%dx%d", n, l), cookies(n, l), uid)
				}
			}
			add("cookies=20x100", cookies(20, 100), uid)
			add("no-cookie", nil, uid)
			add("plaintext-garbage", []byte{1, 2, 3}, uid)
			add("plaintext-unknown-field", kit.EncodeExt(kit.Ext{Type: 0x4242, Body: make([]byte, 64)}), uid)
			add("cookie-outside-authenticator", cookies(1, 100), uid, kit.Ext{Type: 0x0204, Body: make([]byte, 100)})
			add("two-uids", cookies(1, 100), uid, uid)
			add("uid-after-unknown", cookies(1, 100), kit.Ext{Type: 0x4242, Body: make([]byte, 8)}, uid)
			return ss
		},
	})
	// --- SCION clients
	dmn := &kit.FakeDaemon{}
	sw := kit.NewSCIONWorld(w, kit.SrvHost, true, nw.Provider)
	sw.Daemon = dmn
	mkSC := func(name string, auth bool) *clientTarget {
		sc := &client.SCIONClient{Log: w.Log, InterleavedMode: true}
		if auth {
			sc.Auth.Enabled = true
			sc.Auth.DRKeyFetcher = scion.NewFetcher(dmn)
		}
		local := udp.UDPAddr{IA: kit.CliIA, Host: &net.UDPAddr{IP: kit.CliHost.AsSlice()}}
		remote := udp.UDPAddr{IA: kit.SrvIA, Host: &net.UDPAddr{IP: kit.SrvHost.AsSlice(), Port: kit.SrvPort}}
		path := kit.PathSpec{Kind: "scion", Segs: []int{2, 2}}.SnetPath(kit.CliIA, kit.SrvIA, net.UDPAddrFromAddrPort(kit.Router))
		return &clientTarget{
			name: name,
			start: func(ctx context.Context) *world.Thread {
				return w.Go("client", func() {
					r := remote
					r.Host = &net.UDPAddr{IP: kit.SrvHost.AsSlice(), Port: kit.SrvPort}
					client.MeasureClockOffsetSCION(ctx, w.Log, []*client.SCIONClient{sc}, local, r, []snetPath{path})
				})
			},
			genuine: func(d *vnet.Datagram) ([]byte, netip.AddrPort) {
				out := sw.Send(sw.Svc, kit.Router, d.Data)
				if len(out) != 1 {
					return d.Data, kit.Router
				}
				return out[0].Data, kit.Router
			},
			extra: func(d *vnet.Datagram, genuine []byte) []seed {
				// the same response with end-to-end options a sender may add
				pr, err := kit.Parse(genuine)
				if err != nil || pr.UDP == nil {
					return nil
				}
				var ss []seed
				mk := func(name string, opts []*slayers.EndToEndOption) {
					p := &kit.Pkt{SrcIA: pr.SCION.SrcIA, DstIA: pr.SCION.DstIA, SrcHost: kit.SrvHost, DstHost: kit.CliHost, RawPath: pr.RawPath, PathType: pr.SCION.PathType,
						L4: "udp", SrcPort: pr.UDP.SrcPort, DstPort: pr.UDP.DstPort, Payload: pr.UDP.Payload, E2E: opts}
					ss = append(ss, seed{name: name, b: p.Bytes()})
				}
				for i, body := range cmsgBodies() {
					mk(fmt.Sprintf("tsopt-%d", i), []*slayers.EndToEndOption{{OptType: scion.OptTypeTimestamp, OptData: body}})
				}
				for _, l := range []int{0, 1, 4, 5, 12, 27, 28, 29, 40} {
					data := make([]byte, l)
					if l >= 5 {
						binary.BigEndian.PutUint32(data, scion.PacketAuthSPIServer)
					}
					mk(fmt.Sprintf("authopt-len=%d", l), []*slayers.EndToEndOption{{OptType: slayers.OptTypeAuthenticator, OptData: data}})
				}
				return ss
			},
		}
	}
	cts = append(cts, mkSC("scion-client", false), mkSC("scion-client-auth", true))
	// --- CSPTP client
	cc := &client.CSPTPClientIP{Log: w.Log}
	cts = append(cts, &clientTarget{
		name: "csptp-client",
		start: func(ctx context.Context) *world.Thread {
			return w.Go("client", func() { cc.MeasureClockOffset(ctx, kit.CliHost, kit.SrvHost) })
		},
		genuine: func(d *vnet.Datagram) ([]byte, netip.AddrPort) {
			var q csptp.Message
			csptp.DecodeMessage(&q, d.Data)
			b := make([]byte, csptp.MinMessageLength)
			csptp.EncodeMessage(b, &csptp.Message{SdoIDMessageType: csptp.MessageTypeSync, PTPVersion: csptp.PTPVersion, MessageLength: csptp.MinMessageLength, FlagField: csptp.FlagTwoStep | csptp.FlagUnicast, SequenceID: q.SequenceID, ControlField: csptp.ControlSync})
			return b, netip.AddrPortFrom(kit.SrvHost, csptp.EventPortIP)
		},
		extra: func(d *vnet.Datagram, genuine []byte) []seed {
			var q csptp.Message
			csptp.DecodeMessage(&q, d.Data)
			tlv := csptp.ResponseTLV{Type: csptp.TLVTypeOrganizationExtension, OrganizationID: [3]uint8{csptp.OrganizationIDMeinberg0, csptp.OrganizationIDMeinberg1, csptp.OrganizationIDMeinberg2},
				OrganizationSubType: [3]uint8{csptp.OrganizationSubTypeResponse0, csptp.OrganizationSubTypeResponse1, csptp.OrganizationSubTypeResponse2}, FlagField: csptp.TLVFlagServerStateDS,
				RequestIngressTimestamp: csptp.TimestampFromTime(w.Clock.Peek())}
			n := csptp.EncodedResponseTLVLength(&tlv)
			tlv.Length = uint16(n)
			b := make([]byte, csptp.MinMessageLength+n)
			csptp.EncodeMessage(b, &csptp.Message{SdoIDMessageType: csptp.MessageTypeFollowUp, PTPVersion: csptp.PTPVersion, MessageLength: uint16(len(b)), FlagField: csptp.FlagUnicast, SequenceID: q.SequenceID, ControlField: csptp.ControlFollowUp, Timestamp: csptp.TimestampFromTime(w.Clock.Peek())})
			csptp.EncodeResponseTLV(b[csptp.MinMessageLength:], &tlv)
			return []seed{{name: "followup", b: b, from: netip.AddrPortFrom(kit.SrvHost, csptp.GeneralPortIP)}}
		},
	})
	return cts
}

// ---------------------------------------------------------------- decoders called directly

func (fd *feeder) decoders() {
	call := func(name string, b []byte, f func()) {
		if fd.over() {
			return
		}
		fd.n++
		fd.r.Evals++
		fd.r.Distinct++
		fd.r.Journal("decoder " + name)
		defer func() {
			if v := recover(); v != nil {
				pf := mc.PanicFailure(v, debugStack())
				fd.fail(name, "direct", b, pf.Signature, pf.Message)
			}
		}()
		f()
	}
	for i, body := range cmsgBodies() {
		call(fmt.Sprintf("TimestampFromOOBData/%d", i), body, func() { udp.TimestampFromOOBData(body) })
		variants(body, true, func(mut string, b []byte) {
			call("TimestampFromOOBData/"+mut, b, func() { udp.TimestampFromOOBData(b) })
		})
	}
	// cookie TLV grammar: up to three elements, lengths around the boundaries, every header byte pattern
	for _, t := range []uint16{0x101, 0x201, 0x301, 0x401, 0x501, 0x601, 0x999} {
		for _, l := range []uint16{0, 1, 2, 15, 16, 17, 0xffff} {
			for _, have := range []int{0, 1, 2, 3, 4, 5, 16, 17, 20} {
				b := make([]byte, have)
				if have >= 2 {
					binary.BigEndian.PutUint16(b, t)
				}
				if have >= 4 {
					binary.BigEndian.PutUint16(b[2:], l)
				}
				call("EncryptedServerCookie.Decode", b, func() { var e ntske.EncryptedServerCookie; e.Decode(b) })
				call("ServerCookie.Decode", b, func() { var e ntske.ServerCookie; e.Decode(b) })
			}
		}
	}
	for _, nl := range []int{0, 15, 16, 17, 64} {
		for _, cl := range []int{0, 15, 16, 17, 100} {
			e := ntske.EncryptedServerCookie{ID: 1, Nonce: make([]byte, nl), Ciphertext: make([]byte, cl)}
			call("EncryptedServerCookie.Decrypt", nil, func() { e.Decrypt(make([]byte, 32)) })
			call("EncryptedServerCookie.Decrypt/shortkey", nil, func() { e.Decrypt(make([]byte, 5)) })
		}
	}
	// NTS extension field chains: up to 3 fields, every type, boundary lengths
	types := []uint16{0x104, 0x204, 0x304, 0x404, 0x999}
	lens := []uint16{0, 1, 2, 3, 4, 5, 8, 28, 32, 0xffff}
	hdr := make([]byte, 48)
	var chain func(prefix []byte, d int)
	chain = func(prefix []byte, d int) {
		for _, tail := range []int{0, 1, 3, 4, 7, 8, 24, 27, 28, 40} {
			b := append(bytes.Clone(hdr), prefix...)
			b = append(b, make([]byte, tail)...)
			call("nts.DecodePacket", b, func() {
				var p nts.Packet
				if nts.DecodePacket(&p, b) == nil {
					nts.ProcessRequest(b, make([]byte, 32), &p)
					var f ntske.Fetcher
					nts.ProcessResponse(b, make([]byte, 32), &f, &p, p.UniqueID.ID)
				}
			})
		}
		if d == mc.Pick(fd.r, 2, 3) {
			return
		}
		for _, t := range types {
			for _, l := range lens {
				f := make([]byte, 4)
				binary.BigEndian.PutUint16(f, t)
				binary.BigEndian.PutUint16(f[2:], l)
				for _, body := range []int{0, 4, 28} {
					chain(append(append(bytes.Clone(prefix), f...), make([]byte, body)...), d+1)
				}
			}
		}
	}
	chain(nil, 0)
	// authenticator nonce / ciphertext length pairs
	for _, nl := range []uint16{0, 15, 16, 17, 0xffff} {
		for _, cl := range []uint16{0, 15, 16, 17, 0xffff} {
			b := append(bytes.Clone(hdr), 0x01, 0x04, 0x00, 0x24)
			b = append(b, make([]byte, 32)...)
			a := []byte{0x04, 0x04, 0x00, 0x28, byte(nl >> 8), byte(nl), byte(cl >> 8), byte(cl)}
			b = append(b, a...)
			b = append(b, make([]byte, 40)...)
			call("nts.authenticate", b, func() {
				var p nts.Packet
				if nts.DecodePacket(&p, b) == nil {
					nts.ProcessRequest(b, make([]byte, 32), &p)
					var f ntske.Fetcher
					nts.ProcessResponse(b, make([]byte, 32), &f, &p, p.UniqueID.ID)
				}
			})
		}
	}
	// SCION authenticator option accessors
	for l := 0; l <= 40; l++ {
		opt := &slayers.EndToEndOption{OptType: slayers.OptTypeAuthenticator, OptData: make([]byte, l)}
		_ = opt
	}
}

func TestCheck(t *testing.T) {
	mc.Main(t, "C08", func(r *mc.Run) {
		x := &mc.X{}
		// work units: one bubble each, dealt over the worker processes
		type unit struct {
			group string
			idx   int
		}
		var units []unit
		for i := 0; i < 6; i++ {
			units = append(units, unit{"listeners", i})
		}
		units = append(units, unit{"ke", 0})
		for i := 0; i < 5; i++ {
			units = append(units, unit{"clients", i})
		}
		units = append(units, unit{"decoders", 0})
		for _, u := range units {
			if r.Replaying() {
				break
			}
			if *only != "" && *only != u.group {
				continue
			}
			if !r.Mine() {
				continue
			}
			if u.group == "decoders" {
				fd := &feeder{r: r, target: "decoders"}
				fd.decoders()
				r.Extra["n_decoders"] = fd.n
				continue
			}
			world.Run(r.T, x, func(w *world.World) {
				fd := &feeder{r: r, w: w}
				switch u.group {
				case "listeners":
					l := listeners(fd)[u.idx]
					fd.target = l.name
					fd.runListener(l)
				case "ke":
					fd.target = "ntske-handler"
					fd.runKE()
				case "clients":
					ct := clientTargets(fd)[u.idx]
					fd.target = ct.name
					fd.runClient(ct)
					r.Extra["n_delivered_"+ct.name] = fd.delivered
					r.Extra["n_crafted_"+ct.name] = fd.n
					if !fd.stopped && fd.delivered*10 < fd.n*9 {
						r.Fail(ct.name, "harness", fmt.Sprintf("client target %s read only %d of %d crafted datagrams: the target is not being exercised", ct.name, fd.delivered, fd.n), nil)
					}
				}
				k := "n_" + u.group
				if v, ok := r.Extra[k].(int64); ok {
					r.Extra[k] = v + fd.n
				} else {
					r.Extra[k] = fd.n
				}
			})
		}
		r.Sample(input{Target: "scion-service-port", Seed: "authopt-len=27", Mut: "none"})
		r.Sample(input{Target: "ip-listener", Seed: "nts-level3", Mut: "u16[84]=0x0"})
		r.Extra["rule"] = "targets: IP listener, SCION listener as service port / end-host port / dispatcher, CSPTP listener on both ports, NTS-KE handler behind a real TLS session, IP client (plain, NTS), SCION client (plain, SPAO), CSPTP client, and decoders called directly. Inputs: every valid message (NTP, NTS at two pool levels, SCION with empty/SCION/one-hop/incomplete one-hop paths, IPv6, SPAO, hop-by-hop, SCMP, authenticator option with data length 0..40, timestamp option with 35 control-message bodies, unknown options; CSPTP Sync / Follow Up) x {every truncation, every truncation with each / all length-like 16-bit fields rewritten to announce the truncated length (alone, and right after the full datagram with the same fields, so that a reused receive buffer holds matching stale bytes), every byte x 7 values, every (quick: even) 16-bit position x 10 values}; NTS-KE record sequences of <=2 (3) records over 74 records, closed or kept open; extension-field chains of <=2 (3) fields x 10 tail lengths (0..40 bytes after the last field); cookie TLV and nonce/ciphertext length grammars; about 90 NTS requests that verify under the session key but carry unique identifiers of 0..1800 bytes, 0..2 cookies, truncated / padded / huge cookies, 1..14 placeholders of 5 body lengths, unknown, reordered and encrypted fields (IP and SCION listeners), and about 45 NTS responses that verify under the server-to-client key and echo the request's identifier but deliver 1..20 cookies of 0..1500 bytes, garbage or unknown encrypted fields (NTS client; each followed by undisturbed calls that use what was stored). After every datagram to a listener a well-formed sentinel must be handled."
	})
}
