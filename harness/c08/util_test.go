package c08

import (
	"runtime/debug"

	"github.com/scionproto/scion/pkg/snet"
)

type snetPath = snet.Path

func debugStack() []byte { return debug.Stack() }
