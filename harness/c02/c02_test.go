// C02: fault-tolerant midpoint / median containment, permutation invariance,
// no overflow. Exhaustive enumeration of multisets x fault placements x
// permutations over boundary alphabets (DESIGN.md C02).
package c02

import (
	"fmt"
	"math"
	"math/big"
	"slices"
	"testing"
	"time"

	"example.com/scion-time/base/timemath"
	"example.com/scion-time/core/measurements"

	"verif.local/mc"
)

const (
	farPast   = -(int64(1) << 40)
	farFuture = int64(1) << 40
	p62       = int64(1)<<62 - 1
	p61       = int64(1) << 61
)

var correctVals = []int64{0, 1, -1, 2, 3, -3, p61, -p61, p62, -p62}
var faultyVals = []int64{0, 1, -1, 2, 3, -3, p61, -p61, p62, -p62, math.MaxInt64, math.MinInt64}

// isMid reports whether got is the midpoint of lo and hi up to the rounding
// direction: |2*got - (lo+hi)| <= 1, in arbitrary precision (so a wrapped
// intermediate result is caught, a different rounding choice is not).
func isMid(got, lo, hi int64) bool {
	s := new(big.Int).Add(big.NewInt(lo), big.NewInt(hi))
	g := new(big.Int).Mul(big.NewInt(got), big.NewInt(2))
	d := new(big.Int).Sub(g, s)
	return d.CmpAbs(big.NewInt(1)) <= 0
}

// multisets enumerates all non-decreasing index vectors of length k over n symbols.
func multisets(k, n int, f func(idx []int)) {
	idx := make([]int, k)
	var rec func(pos, from int)
	rec = func(pos, from int) {
		if pos == k {
			f(idx)
			return
		}
		for v := from; v < n; v++ {
			idx[pos] = v
			rec(pos+1, v)
		}
	}
	rec(0, 0)
}

// permutations enumerates all distinct permutations of a (sorted) slice.
func permutations(a []int64, f func(p []int64)) {
	p := slices.Clone(a)
	slices.Sort(p)
	for {
		f(p)
		// next lexicographic permutation
		i := len(p) - 2
		for i >= 0 && p[i] >= p[i+1] {
			i--
		}
		if i < 0 {
			return
		}
		j := len(p) - 1
		for p[j] <= p[i] {
			j--
		}
		p[i], p[j] = p[j], p[i]
		slices.Reverse(p[i+1:])
	}
}

func toDur(v []int64) []time.Duration {
	d := make([]time.Duration, len(v))
	for i, x := range v {
		d[i] = time.Duration(x)
	}
	return d
}

func sameMultiset(a []time.Duration, b []int64) bool {
	x := slices.Clone(a)
	y := toDur(b)
	slices.Sort(x)
	slices.Sort(y)
	return slices.Equal(x, y)
}

type input struct {
	Kind    string  `json:"kind"`
	Correct []int64 `json:"correct,omitempty"`
	Faulty  []int64 `json:"faulty,omitempty"`
	Values  []int64 `json:"values,omitempty"`
	Stamps  []int64 `json:"stamps,omitempty"`
}

func checkContain(r *mc.Run, in input) {
	all := append(slices.Clone(in.Correct), in.Faulty...)
	lo, hi := slices.Min(in.Correct), slices.Max(in.Correct)
	// present the faulty values first and last (two placements; order
	// independence itself is decided by the permutation scenario)
	for variant := 0; variant < 2; variant++ {
		v := slices.Clone(all)
		if variant == 1 {
			slices.Reverse(v)
		}
		ds := toDur(v)
		got := int64(timemath.FaultTolerantMidpoint(ds))
		r.Evals++
		if got < lo || got > hi {
			r.Fail("contain", "ftm-outside-correct-range", fmt.Sprintf("FaultTolerantMidpoint(%v)=%d not in [%d,%d] (correct=%v faulty=%v)", v, got, lo, hi, in.Correct, in.Faulty), in)
		}
		s := slices.Clone(all)
		slices.Sort(s)
		n := len(s)
		f := (n - 1) / 3
		if !isMid(got, s[f], s[n-1-f]) {
			r.Fail("contain", "ftm-not-midpoint", fmt.Sprintf("FaultTolerantMidpoint(%v)=%d is not the midpoint of %d and %d", v, got, s[f], s[n-1-f]), in)
		}
		if !sameMultiset(ds, all) {
			r.Fail("contain", "ftm-slice-not-permutation", fmt.Sprintf("slice after call %v is not a permutation of %v", ds, all), in)
		}
		// measurement variant
		ms := make([]measurements.Measurement, len(v))
		for i, x := range v {
			ms[i] = measurements.Measurement{Offset: time.Duration(x), Timestamp: time.Unix(1000+int64(i%3), 0), Error: fmt.Errorf("e%d", i)}
		}
		m := measurements.FaultTolerantMidpoint(ms)
		r.Evals++
		if int64(m.Offset) != got {
			r.Fail("contain", "ftm-measurement-differs", fmt.Sprintf("measurements.FaultTolerantMidpoint(%v).Offset=%d, durations give %d", v, m.Offset, got), in)
		}
		if m.Error != nil {
			r.Fail("contain", "ftm-measurement-error-not-nil", fmt.Sprintf("Error=%v for %v", m.Error, v), in)
		}
	}
}

func checkMedian(r *mc.Run, vals []int64) {
	in := input{Kind: "median", Values: vals}
	ds := toDur(vals)
	got := int64(timemath.Median(ds))
	r.Evals++
	lo, hi := slices.Min(vals), slices.Max(vals)
	if got < lo || got > hi {
		r.Fail("median", "median-outside-range", fmt.Sprintf("Median(%v)=%d not in [%d,%d]", vals, got, lo, hi), in)
	}
	s := slices.Clone(vals)
	slices.Sort(s)
	n := len(s)
	if n%2 == 1 && got != s[n/2] || n%2 == 0 && !isMid(got, s[n/2-1], s[n/2]) {
		r.Fail("median", "median-not-middle", fmt.Sprintf("Median(%v)=%d (sorted %v)", vals, got, s), in)
	}
	if !sameMultiset(ds, vals) {
		r.Fail("median", "median-slice-not-permutation", fmt.Sprintf("slice after call %v", ds), in)
	}
	// measurement variant, every input carrying an error of its own
	ms := make([]measurements.Measurement, len(vals))
	for i, x := range vals {
		ms[i] = measurements.Measurement{Offset: time.Duration(x), Timestamp: time.Unix(1000+int64(i%3), 0), Error: fmt.Errorf("e%d", i)}
	}
	m := measurements.Median(ms)
	r.Evals++
	if int64(m.Offset) != got {
		r.Fail("median", "median-measurement-differs", fmt.Sprintf("measurements.Median(%v).Offset=%d, durations give %d", vals, m.Offset, got), in)
	}
	if m.Error != nil {
		r.Fail("median", "median-measurement-error-not-nil", fmt.Sprintf("Error=%v for %v", m.Error, vals), in)
	}
}

// checkPerms: every distinct permutation gives the same result, for both
// functions and both representations; timestamps of the measurement result
// lie between the timestamps of two candidates holding the selected offsets.
func checkPerms(r *mc.Run, vals []int64, stamps []int64) {
	in := input{Kind: "perm", Values: vals, Stamps: stamps}
	s := slices.Clone(vals)
	slices.Sort(s)
	n := len(s)
	f := (n - 1) / 3
	// reference: the results for the sorted order (differential oracle)
	wantF := int64(timemath.FaultTolerantMidpoint(toDur(s)))
	wantM := int64(timemath.Median(toDur(s)))
	ds := make([]time.Duration, n)
	ms := make([]measurements.Measurement, n)
	// timestamps are attached to positions of the sorted multiset so that
	// equal offsets may carry different timestamps
	type pair struct{ off, ts int64 }
	// timestamps are seconds-resolution instants: values at or beyond +-2^40
	// denote instants far outside 1678..2262 (the zero time.Time among them)
	mk := func(ts int64) time.Time {
		switch {
		case ts <= farPast:
			return time.Time{}.Add(time.Duration(ts-farPast) * time.Second)
		case ts >= farFuture-1000:
			return time.Date(2500, 1, 1, 0, 0, 0, 0, time.UTC).Add(time.Duration(ts-farFuture) * time.Second)
		}
		return time.Unix(0, ts)
	}
	un := func(t time.Time) int64 {
		switch {
		case t.Year() < 1000:
			return farPast + int64(t.Sub(time.Time{})/time.Second)
		case t.Year() >= 2400:
			return farFuture + int64(t.Sub(time.Date(2500, 1, 1, 0, 0, 0, 0, time.UTC))/time.Second)
		}
		return t.UnixNano()
	}
	base := make([]pair, n)
	for i := range s {
		base[i] = pair{s[i], stamps[i%len(stamps)]}
	}
	tsRange := func(off int64) (int64, int64) {
		lo, hi := int64(math.MaxInt64), int64(math.MinInt64)
		for _, b := range base {
			if b.off == off {
				lo, hi = min(lo, b.ts), max(hi, b.ts)
			}
		}
		return lo, hi
	}
	idx := make([]int64, n)
	for i := range idx {
		idx[i] = int64(i)
	}
	permutations(idx, func(p []int64) {
		for i, k := range p {
			ds[i] = time.Duration(base[k].off)
		}
		if got := int64(timemath.FaultTolerantMidpoint(ds)); got != wantF {
			r.Fail("perm", "ftm-order-dependent", fmt.Sprintf("order %v of %v: %d want %d", p, base, got, wantF), in)
		}
		for i, k := range p {
			ds[i] = time.Duration(base[k].off)
		}
		if got := int64(timemath.Median(ds)); got != wantM {
			r.Fail("perm", "median-order-dependent", fmt.Sprintf("order %v of %v: %d want %d", p, base, got, wantM), in)
		}
		for variant := 0; variant < 2; variant++ {
			for i, k := range p {
				// inputs carry an error of their own: the combined result never does
				ms[i] = measurements.Measurement{Offset: time.Duration(base[k].off), Timestamp: mk(base[k].ts), Error: fmt.Errorf("input %d", k)}
			}
			var m measurements.Measurement
			var a, b int64
			if variant == 0 {
				m = measurements.FaultTolerantMidpoint(ms)
				a, b = s[f], s[n-1-f]
				if int64(m.Offset) != wantF {
					r.Fail("perm", "ftm-measurement-order-dependent", fmt.Sprintf("order %v of %v: %d want %d", p, base, m.Offset, wantF), in)
				}
			} else {
				m = measurements.Median(ms)
				if n%2 == 1 {
					a, b = s[n/2], s[n/2]
				} else {
					a, b = s[n/2-1], s[n/2]
				}
				if int64(m.Offset) != wantM {
					r.Fail("perm", "median-measurement-order-dependent", fmt.Sprintf("order %v of %v: %d want %d", p, base, m.Offset, wantM), in)
				}
			}
			if m.Error != nil {
				r.Fail("perm", "measurement-error-not-nil", "Error set", in)
			}
			alo, ahi := tsRange(a)
			blo, bhi := tsRange(b)
			ts := un(m.Timestamp)
			if ts < min(alo, blo) || ts > max(ahi, bhi) {
				r.Fail("perm", "measurement-timestamp-outside-selected", fmt.Sprintf("order %v of %v variant %d: ts=%d, selected offsets %d,%d have ts in [%d,%d]∪[%d,%d]", p, base, variant, ts, a, b, alo, ahi, blo, bhi), in)
			}
			got := make([]int64, n)
			for i := range ms {
				got[i] = int64(ms[i].Offset)
			}
			slices.Sort(got)
			if !slices.Equal(got, s) {
				r.Fail("perm", "measurement-slice-not-permutation", fmt.Sprintf("%v", got), in)
			}
		}
		r.Evals += 4
	})
}

func TestCheck(t *testing.T) {
	mc.Main(t, "C02", func(r *mc.Run) {
		var in input
		if r.ReplayInput("contain", &in) {
			checkContain(r, in)
		} else if r.ReplayInput("median", &in) {
			checkMedian(r, in.Values)
		} else if r.ReplayInput("perm", &in) {
			checkPerms(r, in.Values, in.Stamps)
		}
		if r.Replaying() {
			for _, v := range r.Rep.Violations {
				fmt.Printf("REPLAY-VERDICT: FAIL signature=%q\n%s\n", v.Signature, v.Message)
				t.Fail()
			}
			if len(r.Rep.Violations) == 0 {
				fmt.Println("REPLAY-VERDICT: PASS")
			}
			return
		}
		maxN := mc.Pick(r, 7, 10)
		// 1. containment under every choice of <= f faulty entries
		for n := 1; n <= maxN; n++ {
			f := (n - 1) / 3
			for k := 0; k <= f; k++ {
				multisets(n-k, len(correctVals), func(ci []int) {
					if !r.Mine() {
						return
					}
					correct := make([]int64, len(ci))
					for i, c := range ci {
						correct[i] = correctVals[c]
					}
					nontrivial := correct[0] != correct[len(correct)-1]
					multisets(k, len(faultyVals), func(fi []int) {
						faulty := make([]int64, len(fi))
						for i, c := range fi {
							faulty[i] = faultyVals[c]
						}
						in := input{Kind: "contain", Correct: correct, Faulty: faulty}
						checkContain(r, in)
						if nontrivial || k > 0 {
							r.Distinct++
						}
						if n == 7 && k == 2 && len(r.Rep.Samples) < 2 && faulty[1] == math.MinInt64 {
							r.Sample(in)
						}
					})
				})
			}
		}
		// 2. median containment and exactness on all multisets
		for n := 1; n <= maxN; n++ {
			multisets(n, len(correctVals), func(ci []int) {
				if !r.Mine() {
					return
				}
				vals := make([]int64, n)
				for i, c := range ci {
					vals[i] = correctVals[c]
				}
				checkMedian(r, vals)
				if vals[0] != vals[n-1] {
					r.Distinct++
				}
			})
		}
		// 3. permutation invariance and timestamp selection
		permVals := []int64{-p62, -1, 0, 2, p62}
		maxP := mc.Pick(r, 7, 8)
		for n := 1; n <= maxP; n++ {
			multisets(n, len(permVals), func(ci []int) {
				if !r.Mine() {
					return
				}
				vals := make([]int64, n)
				for i, c := range ci {
					vals[i] = permVals[c]
				}
				for _, stamps := range [][]int64{{5}, {1, 7, 3}, {9, 2}, {farPast}, {farPast, 4}, {farFuture, farPast, farFuture - 8}} {
					checkPerms(r, vals, stamps)
				}
				if vals[0] != vals[n-1] {
					r.Distinct++
				}
				if n == 4 && len(r.Rep.Samples) < 4 && vals[0] != vals[3] {
					r.Sample(input{Kind: "perm", Values: vals, Stamps: []int64{1, 7, 3}})
				}
			})
		}
		r.Extra["max_n_containment"] = maxN
		r.Extra["max_n_permutations"] = maxP
		r.Extra["rule"] = "all multisets of n values over a 10-value boundary alphabet (|v|<2^62) x all multisets of <=floor((n-1)/3) faulty values over that alphabet plus MinInt64/MaxInt64; all distinct orderings of all multisets over a 5-value alphabet with six timestamp assignments (incl. the zero time and instants outside 1678..2262); non-trivial = at least two distinct values or at least one faulty entry"
	})
}
