package c05

import (
	"bytes"
	"context"
	"encoding/binary"
	"fmt"
	"net"
	"net/netip"
	"time"

	"github.com/scionproto/scion/pkg/addr"
	"github.com/scionproto/scion/pkg/snet"

	"example.com/scion-time/core/client"
	"example.com/scion-time/core/server"
	"example.com/scion-time/net/ntp"
	"example.com/scion-time/net/scion"
	"example.com/scion-time/net/udp"

	"verif.local/kit"
	"verif.local/mc"
	"verif.local/shim/vnet"
	"verif.local/world"
)

// ---------------------------------------------------------------- SCION

type smut struct {
	name string
	// apply edits the description of the genuine response packet; ok reports
	// whether the SCION-level part of the acceptance predicate still holds.
	apply func(p *kit.Pkt)
	post  func(b []byte) []byte
	ok    bool
}

func scionMuts() []smut {
	otherIA := addr.MustParseIA("1-ff00:0:999")
	return []smut{
		{name: "scion-genuine", apply: func(p *kit.Pkt) {}, ok: true},
		{name: "src-ia-wrong", apply: func(p *kit.Pkt) { p.SrcIA = otherIA }},
		{name: "src-host-wrong", apply: func(p *kit.Pkt) { p.SrcHost = netip.MustParseAddr("10.0.0.9") }},
		{name: "dst-ia-wrong", apply: func(p *kit.Pkt) { p.DstIA = otherIA }},
		{name: "dst-host-wrong", apply: func(p *kit.Pkt) { p.DstHost = netip.MustParseAddr("10.0.0.77") }},
		{name: "src-host-v6", apply: func(p *kit.Pkt) { p.SrcHost = netip.MustParseAddr("fd00::1") }},
		{name: "src-host-v4-mapped", apply: func(p *kit.Pkt) { p.SrcHost = netip.MustParseAddr("::ffff:10.0.0.1") }, ok: true},
		{name: "scmp-echo-reply", apply: func(p *kit.Pkt) { p.L4 = "scmp-echo" }},
		{name: "scmp-error", apply: func(p *kit.Pkt) { p.L4 = "scmp-error" }},
		{name: "l4-other", apply: func(p *kit.Pkt) { p.L4 = "none" }},
		{name: "hop-by-hop-extension", apply: func(p *kit.Pkt) { p.HBH = true }, ok: true},
		{name: "src-port-other", apply: func(p *kit.Pkt) { p.SrcPort = 9 }, ok: true},
		{name: "udp-length-beyond-datagram", apply: func(p *kit.Pkt) {}, post: func(b []byte) []byte {
			// the UDP header is the last 8+48 bytes; its length field is at offset 4
			o := len(b) - 56 + 4
			binary.BigEndian.PutUint16(b[o:], 4000)
			return b
		}, ok: true}, // (the predicate fails only where the edit is applied, see below)
		// the host address *type* is part of the address: the same four bytes as a
		// service address are not the queried host / the client
		{name: "src-host-type-svc", apply: func(p *kit.Pkt) {}, post: func(b []byte) []byte { b[9] = b[9]&0xf0 | 0x04; return b }, ok: true},
		{name: "dst-host-type-svc", apply: func(p *kit.Pkt) {}, post: func(b []byte) []byte { b[9] = b[9]&0x0f | 0x40; return b }, ok: true},
	}
}

func programSCION(r *mc.Run, interleaved bool, warm int, cat []mut) func(x *mc.X) {
	smuts := scionMuts()
	return func(x *mc.X) {
		world.Run(r.T, x, func(w *world.World) {
			s := kit.NewSim(w, x, kit.SCIONTransport{}, kit.Router)
			flt := &kit.RecFilter{}
			c := &client.SCIONClient{Log: w.Log, InterleavedMode: interleaved, Filter: flt}
			spath := kit.PathSpec{Kind: "scion", Segs: []int{2, 2}}.SnetPath(kit.CliIA, kit.SrvIA, net.UDPAddrFromAddrPort(kit.Router))
			var prevResp ntp.Packet
			accepted := false
			call := func(script bool) (err error, consumed int) {
				ctx, cancel := context.WithTimeout(context.Background(), time.Second)
				defer cancel()
				deadline := time.Now().Add(time.Second)
				th := w.Go("client", func() {
					local := udp.UDPAddr{IA: kit.CliIA, Host: &net.UDPAddr{IP: kit.CliHost.AsSlice()}}
					remote := udp.UDPAddr{IA: kit.SrvIA, Host: &net.UDPAddr{IP: kit.SrvHost.AsSlice(), Port: kit.SrvPort}}
					_, _, err = client.MeasureClockOffsetSCION(ctx, w.Log, []*client.SCIONClient{c}, local, remote, []snet.Path{spath})
				})
				scripted := false
				for {
					w.Settle()
					w.CheckPanics()
					if th.Finished() {
						return
					}
					var sock *vnet.UDPConn
					for _, sk := range w.Net.Open() {
						if sk.Reading.Load() {
							sock = sk
						}
					}
					reqs := s.NewRequests()
					if sock == nil || len(reqs) == 0 {
						time.Sleep(time.Until(deadline) + 1)
						continue
					}
					d := reqs[len(reqs)-1]
					rp := s.Serve(d, time.Millisecond)
					if !script || scripted {
						prevResp = rp.E.Resp
						s.Deliver(rp, sock, time.Millisecond)
						continue
					}
					scripted = true
					reqPayload, _, _ := s.T.Unwrap(d)
					var reqPkt ntp.Packet
					ntp.DecodePacket(&reqPkt, reqPayload)
					ilReq := reqPkt.OriginTime != (ntp.Time64{})
					ref := w.Clock.Peek()
					gen, err2 := kit.Parse(rp.D.Data)
					if err2 != nil {
						x.Failf("harness", "%v", err2)
					}
					time.Sleep(time.Millisecond)
					for k := 0; k < 2 && !sock.Closed() && !th.Finished(); k++ {
						m := cat[x.Choose(len(cat), fmt.Sprintf("datagram%d", k))]
						sm := smuts[x.Choose(len(smuts), fmt.Sprintf("scion%d", k))]
						payload, from := m.f(gen.UDP.Payload, reqPkt, prevResp)
						pk := &kit.Pkt{SrcIA: gen.SCION.SrcIA, DstIA: gen.SCION.DstIA, SrcHost: kit.SrvHost, DstHost: kit.CliHost, RawPath: gen.RawPath, PathType: gen.SCION.PathType,
							L4: "udp", SrcPort: gen.UDP.SrcPort, DstPort: gen.UDP.DstPort, Payload: payload}
						sm.apply(pk)
						b := pk.Bytes()
						if sm.post != nil && len(payload) == 48 {
							b = sm.post(b)
						}
						dg := &vnet.Datagram{From: kit.Router, To: d.From, Data: b, RxTime: w.Clock.Peek(), Tag: m.name + "+" + sm.name}
						x.Logf("peer sends %s", dg.Tag)
						nf := len(flt.Calls)
						reads := sock.Reads.Load()
						sock.Deliver(dg)
						w.Settle()
						w.CheckPanics()
						if sock.Reads.Load() > reads {
							consumed++
						}
						x.Transitions++
						if len(flt.Calls) > nf {
							// the NTP-level predicate (the underlay source is the router for every SCION datagram)
							ntpFrom := srvAddr
							if from.Addr().Unmap() != srvAddr.Addr() {
								ntpFrom = srvAddr // the IP-source mutations do not exist at SCION level
							}
							okNTP := acceptable(payload, ntpFrom, reqPkt, ilReq, reqPkt.OriginTime, ref)
							okSCION := sm.ok && !(sm.post != nil && len(payload) == 48)
							if !okNTP || !okSCION {
								x.Failf("unjustified-acceptance", "client evaluated SCION datagram %q as the response (NTP predicate %v, SCION predicate %v)", dg.Tag, okNTP, okSCION)
							}
							accepted = true
						} else if m.name == "genuine" && sm.name == "scion-genuine" && k == 0 {
							x.Failf("genuine-response-rejected", "the unmutated SCION response was not accepted")
						}
					}
				}
			}
			for i := 0; i < warm; i++ {
				if err, _ := call(false); err != nil {
					x.Failf("genuine-response-rejected", "undisturbed call %d failed: %v", i, err)
				}
				time.Sleep(500 * time.Millisecond)
			}
			nflt := len(flt.Calls)
			err, consumed := call(true)
			x.Observe(err == nil, consumed, len(flt.Calls)-nflt, accepted)
		})
	}
}

// ---------------------------------------------------------------- NTS over IP

func programNTS(r *mc.Run, cat []mut) func(x *mc.X) {
	return func(x *mc.X) {
		world.Run(r.T, x, func(w *world.World) {
			server.VerifResetTSS()
			nw := kit.NewNTSWorld(w)
			flt := &kit.RecFilter{}
			c := &client.IPClient{Log: w.Log, Filter: flt}
			c.Auth.Enabled = true
			c.Auth.NTSKEFetcher = kit.NewFetcher(w)
			seen := 0
			var prevGenuine []byte
			call := func(script bool) (err error) {
				ctx, cancel := context.WithTimeout(context.Background(), time.Second)
				defer cancel()
				deadline := time.Now().Add(time.Second)
				th := w.Go("client", func() {
					_, _, err = client.MeasureClockOffsetIP(ctx, w.Log, c, &net.UDPAddr{IP: clientIP}, &net.UDPAddr{IP: net.IPv4(10, 0, 0, 1), Port: 123})
				})
				for {
					w.Settle()
					w.CheckPanics()
					if th.Finished() {
						return
					}
					var sock *vnet.UDPConn
					for _, sk := range w.Net.Open() {
						if sk != nw.SrvSock && sk.Reading.Load() {
							sock = sk
						}
					}
					all := w.Net.SentSince(seen)
					seen += len(all)
					var req *vnet.Datagram
					for _, d := range all {
						if d.Sock == sock {
							req = d
						}
					}
					if sock == nil {
						w.Advance(100 * time.Millisecond)
						continue
					}
					if req == nil {
						time.Sleep(time.Until(deadline) + 1)
						continue
					}
					out := nw.ToServer(req)
					seen += len(out)
					if len(out) != 1 {
						x.Failf("harness", "listener wrote %d datagrams for the client's NTS request", len(out))
					}
					genuine := out[0].Data
					if !script {
						prevGenuine = genuine
						rd := *out[0]
						rd.RxTime = w.Clock.Peek()
						sock.Deliver(&rd)
						continue
					}
					script = false
					var reqPkt ntp.Packet
					ntp.DecodePacket(&reqPkt, req.Data)
					for k := 0; k < 2 && !sock.Closed() && !th.Finished(); k++ {
						b, from, tag := ntsDatagram(x, k, cat, genuine, prevGenuine, reqPkt)
						dg := &vnet.Datagram{From: from, To: req.From, Data: b, RxTime: w.Clock.Peek(), Tag: tag}
						x.Logf("peer sends %s", tag)
						nf := len(flt.Calls)
						sock.Deliver(dg)
						w.Settle()
						w.CheckPanics()
						x.Transitions++
						if len(flt.Calls) > nf {
							// with NTS only the server's own, untampered packet (possibly followed by
							// unauthenticated trailing bytes) can be accepted
							ok := from.Addr().Unmap() == srvAddr.Addr() && len(b) >= len(genuine) && bytes.Equal(b[:len(genuine)], genuine)
							if !ok {
								x.Failf("unjustified-acceptance", "NTS client evaluated datagram %q (from %v, %d bytes) as the response: it is not the authenticated response to the outstanding request", tag, from, len(b))
							}
						} else if tag == "genuine" && k == 0 {
							x.Failf("genuine-response-rejected", "the unmutated NTS response was not accepted")
						}
					}
				}
			}
			if err := call(false); err != nil {
				x.Failf("genuine-response-rejected", "undisturbed NTS call failed: %v", err)
			}
			time.Sleep(500 * time.Millisecond)
			nflt := len(flt.Calls)
			err := call(true)
			x.Observe(err == nil, len(flt.Calls)-nflt)
		})
	}
}

// ntsDatagram chooses one datagram for an NTS-protected exchange: the NTP-level
// catalogue applied to the authenticated response, plus the NTS-specific ones.
func ntsDatagram(x *mc.X, k int, cat []mut, genuine, prevGenuine []byte, reqPkt ntp.Packet) (b []byte, from netip.AddrPort, tag string) {
	from = srvAddr
	ci := x.Choose(len(cat)+4, fmt.Sprintf("datagram%d", k))
	switch ci - len(cat) {
	case 0:
		b, tag = bytes.Clone(prevGenuine), "previous-genuine-response"
	case 1:
		b, tag = bytes.Clone(genuine), "last-authenticator-byte-flipped"
		b[len(b)-1] ^= 1
	case 2:
		// a well-formed plain NTP response to this very request, without any NTS field
		b, tag = bytes.Clone(genuine[:48]), "nts-fields-stripped"
	case 3:
		// the unique identifier of the previous exchange on this exchange's header
		b, tag = bytes.Clone(prevGenuine), "previous-response-with-this-header"
		copy(b[:48], genuine[:48])
	default:
		b, from = cat[ci].f(genuine, reqPkt, ntp.Packet{})
		tag = cat[ci].name
	}
	return
}

// ---------------------------------------------------------------- NTS over SCION

func programSCIONNTS(r *mc.Run, cat []mut) func(x *mc.X) {
	return func(x *mc.X) {
		world.Run(r.T, x, func(w *world.World) {
			server.VerifResetTSS()
			nw := kit.NewNTSWorld(w)
			sw := kit.NewSCIONWorld(w, kit.SrvHost, false, nw.Provider)
			nw.NTPPort = kit.SrvPort
			flt := &kit.RecFilter{}
			c := &client.SCIONClient{Log: w.Log, Filter: flt}
			c.Auth.NTSEnabled = true
			c.Auth.NTSKEFetcher = kit.NewFetcher(w)
			spath := kit.PathSpec{Kind: "scion", Segs: []int{2, 2}}.SnetPath(kit.CliIA, kit.SrvIA, net.UDPAddrFromAddrPort(kit.Router))
			seen := 0
			var prevGenuine []byte
			call := func(script bool) (err error) {
				ctx, cancel := context.WithTimeout(context.Background(), time.Second)
				defer cancel()
				deadline := time.Now().Add(time.Second)
				th := w.Go("client", func() {
					local := udp.UDPAddr{IA: kit.CliIA, Host: &net.UDPAddr{IP: kit.CliHost.AsSlice()}}
					remote := udp.UDPAddr{IA: kit.SrvIA, Host: &net.UDPAddr{IP: kit.SrvHost.AsSlice(), Port: kit.SrvPort}}
					_, _, err = client.MeasureClockOffsetSCION(ctx, w.Log, []*client.SCIONClient{c}, local, remote, []snet.Path{spath})
				})
				for {
					w.Settle()
					w.CheckPanics()
					if th.Finished() {
						return
					}
					var sock *vnet.UDPConn
					for _, sk := range w.Net.Open() {
						if sk != nw.SrvSock && sk != sw.Svc && sk != sw.EH && !sk.Closed() && sk.Reading.Load() {
							sock = sk
						}
					}
					all := w.Net.SentSince(seen)
					seen += len(all)
					var req *vnet.Datagram
					for _, d := range all {
						if d.Sock == sock {
							req = d
						}
					}
					if sock == nil {
						w.Advance(100 * time.Millisecond)
						if time.Now().After(deadline.Add(10 * time.Second)) {
							x.Failf("harness", "client blocked without a reading socket")
						}
						continue
					}
					if req == nil {
						time.Sleep(time.Until(deadline) + 1)
						continue
					}
					out := sw.Send(sw.Svc, kit.Router, req.Data)
					seen += len(out)
					if len(out) != 1 {
						x.Failf("harness", "SCION listener wrote %d datagrams for the client's NTS request", len(out))
					}
					gen, perr := kit.Parse(out[0].Data)
					if perr != nil || gen.UDP == nil {
						x.Failf("harness", "reply of the SCION listener: %v", perr)
					}
					genuine := gen.UDP.Payload
					if !script {
						prevGenuine = bytes.Clone(genuine)
						rd := *out[0]
						rd.From = kit.Router
						rd.RxTime = w.Clock.Peek()
						sock.Deliver(&rd)
						continue
					}
					script = false
					rq, _ := kit.Parse(req.Data)
					var reqPkt ntp.Packet
					ntp.DecodePacket(&reqPkt, rq.UDP.Payload)
					for k := 0; k < 2 && !sock.Closed() && !th.Finished(); k++ {
						b, from, tag := ntsDatagram(x, k, cat, genuine, prevGenuine, reqPkt)
						pk := &kit.Pkt{SrcIA: gen.SCION.SrcIA, DstIA: gen.SCION.DstIA, SrcHost: kit.SrvHost, DstHost: kit.CliHost, RawPath: gen.RawPath, PathType: gen.SCION.PathType,
							L4: "udp", SrcPort: gen.UDP.SrcPort, DstPort: gen.UDP.DstPort, Payload: b}
						dg := &vnet.Datagram{From: kit.Router, To: req.From, Data: pk.Bytes(), RxTime: w.Clock.Peek(), Tag: tag}
						x.Logf("peer sends %s", tag)
						nf := len(flt.Calls)
						sock.Deliver(dg)
						w.Settle()
						w.CheckPanics()
						x.Transitions++
						_ = from // the IP-source mutations do not exist at SCION level: the packet keeps the server's SCION address
						if len(flt.Calls) > nf {
							ok := len(b) >= len(genuine) && bytes.Equal(b[:len(genuine)], genuine)
							if !ok {
								x.Failf("unjustified-acceptance", "NTS-enabled SCION client evaluated datagram %q (%d bytes) as the response: it is not the authenticated response to the outstanding request", tag, len(b))
							}
						} else if tag == "genuine" && k == 0 {
							x.Failf("genuine-response-rejected", "the unmutated NTS response over SCION was not accepted")
						}
					}
				}
			}
			if err := call(false); err != nil {
				x.Failf("genuine-response-rejected", "undisturbed NTS call over SCION failed: %v", err)
			}
			time.Sleep(500 * time.Millisecond)
			nflt := len(flt.Calls)
			err := call(true)
			if err == nil && len(flt.Calls) == nflt {
				x.Failf("success-without-exchange", "the call returned an offset without evaluating any response")
			}
			x.Observe(err == nil, len(flt.Calls)-nflt)
		})
	}
}

// ---------------------------------------------------------------- SCION with packet authentication

// programSCIONAuth: a SCIONClient with DRKey packet authentication enabled
// against the authenticating listener. The listener's genuine (authenticated)
// response is delivered with its source / destination ISD-AS or host rewritten
// and the authenticator left as it is: whatever the authenticator covers, a
// datagram that does not come from the queried ISD-AS and host, or is not
// addressed to the client, must not yield an offset.
func programSCIONAuth(r *mc.Run) func(x *mc.X) {
	otherIA := addr.MustParseIA("1-ff00:0:999")
	kinds := []struct {
		name  string
		apply func(p *kit.Pkt)
		ok    bool
	}{
		{"genuine", func(p *kit.Pkt) {}, true},
		{"src-ia-wrong", func(p *kit.Pkt) { p.SrcIA = otherIA }, false},
		{"dst-ia-wrong", func(p *kit.Pkt) { p.DstIA = otherIA }, false},
		{"src-host-wrong", func(p *kit.Pkt) { p.SrcHost = netip.MustParseAddr("10.0.0.9") }, false},
		{"dst-host-wrong", func(p *kit.Pkt) { p.DstHost = netip.MustParseAddr("10.0.0.77") }, false},
	}
	return func(x *mc.X) {
		world.Run(r.T, x, func(w *world.World) {
			server.VerifResetTSS()
			sw := kit.NewSCIONWorld(w, kit.SrvHost, true, nil)
			flt := &kit.RecFilter{}
			sc := &client.SCIONClient{Log: w.Log, Filter: flt}
			sc.Auth.Enabled = true
			sc.Auth.DRKeyFetcher = scion.NewFetcher(sw.Daemon)
			local := udp.UDPAddr{IA: kit.CliIA, Host: &net.UDPAddr{IP: kit.CliHost.AsSlice()}}
			remote := udp.UDPAddr{IA: kit.SrvIA, Host: &net.UDPAddr{IP: kit.SrvHost.AsSlice(), Port: kit.SrvPort}}
			spath := kit.PathSpec{Kind: "scion", Segs: []int{2, 2}}.SnetPath(kit.CliIA, kit.SrvIA, net.UDPAddrFromAddrPort(kit.Router))
			ctx, cancel := context.WithTimeout(context.Background(), time.Second)
			th := w.Go("client", func() {
				client.MeasureClockOffsetSCION(ctx, w.Log, []*client.SCIONClient{sc}, local, remote, []snet.Path{spath})
			})
			defer func() {
				cancel()
				for i := 0; i < 10 && !th.Finished(); i++ {
					w.Advance(time.Second)
				}
				w.Settle()
			}()
			w.Settle()
			w.CheckPanics()
			var sock *vnet.UDPConn
			for _, s := range w.Net.Open() {
				if s != sw.Svc && s != sw.EH && !s.Closed() && s.Reading.Load() {
					sock = s
				}
			}
			reqs := w.Net.SentSince(0)
			if sock == nil || len(reqs) == 0 {
				x.Failf("harness", "authenticating client sent no request")
			}
			out := sw.Send(sw.Svc, kit.Router, reqs[len(reqs)-1].Data)
			if len(out) != 1 {
				x.Failf("harness", "listener wrote %d datagrams for the authenticated request", len(out))
			}
			gen, perr := kit.Parse(out[0].Data)
			if perr != nil || gen.UDP == nil || gen.E2E == nil {
				x.Failf("harness", "reply of the listener: %v", perr)
			}
			for k := 0; k < 2 && !sock.Closed() && !th.Finished(); k++ {
				kd := kinds[x.Choose(len(kinds), fmt.Sprintf("datagram%d", k))]
				sh, _ := netip.AddrFromSlice(gen.SCION.RawSrcAddr)
				dh, _ := netip.AddrFromSlice(gen.SCION.RawDstAddr)
				pk := &kit.Pkt{SrcIA: gen.SCION.SrcIA, DstIA: gen.SCION.DstIA, SrcHost: sh, DstHost: dh, RawPath: gen.RawPath, PathType: gen.SCION.PathType,
					L4: "udp", SrcPort: gen.UDP.SrcPort, DstPort: gen.UDP.DstPort, Payload: gen.UDP.Payload, E2E: gen.E2E.Options, TrafficClass: gen.SCION.TrafficClass}
				kd.apply(pk)
				nf := len(flt.Calls)
				x.Logf("peer sends authenticated response, %s", kd.name)
				sock.Deliver(&vnet.Datagram{From: kit.Router, To: sock.Local(), Data: pk.Bytes(), RxTime: w.Clock.Peek(), Tag: kd.name})
				w.Settle()
				w.CheckPanics()
				x.Transitions++
				if len(flt.Calls) > nf && !kd.ok {
					x.Failf("unjustified-acceptance", "authenticating SCION client evaluated the response %q (carrying the server's authenticator) although it does not come from the queried ISD-AS / host or is not addressed to the client", kd.name)
				}
				if len(flt.Calls) == nf && kd.ok && k == 0 {
					x.Failf("genuine-response-rejected", "the listener's authenticated response, rebuilt unchanged, was not accepted")
				}
			}
			x.Observe(len(flt.Calls))
		})
	}
}
