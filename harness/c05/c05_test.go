// C05: clients accept only genuine, matching server responses (DESIGN.md
// C05). The real IPClient runs over the in-memory network; for the
// outstanding request (basic and interleaved) a scripted peer emits every
// sequence of up to two datagrams drawn from the genuine response and its
// single-field mutations; a success must be justified by the statement's
// acceptance predicate evaluated on the datagram the client consumed last.
package c05

import (
	"context"
	"fmt"
	"net"
	"net/netip"
	"strings"
	"testing"
	"time"

	"example.com/scion-time/core/client"
	"example.com/scion-time/net/ntp"

	"verif.local/kit"
	"verif.local/mc"
	"verif.local/shim/vnet"
	"verif.local/world"
)

var (
	srvAddr    = netip.MustParseAddrPort("10.0.0.1:123")
	clientIP   = net.IPv4(10, 0, 0, 2)
	clientZone = ""
)

type mut struct {
	name string
	f    func(genuine []byte, req, prevResp ntp.Packet) ([]byte, netip.AddrPort)
}

func put64(b []byte, off int, t ntp.Time64) {
	b[off], b[off+1], b[off+2], b[off+3] = byte(t.Seconds>>24), byte(t.Seconds>>16), byte(t.Seconds>>8), byte(t.Seconds)
	b[off+4], b[off+5], b[off+6], b[off+7] = byte(t.Fraction>>24), byte(t.Fraction>>16), byte(t.Fraction>>8), byte(t.Fraction)
}

func get64(b []byte, off int) ntp.Time64 {
	return ntp.Time64{Seconds: uint32(b[off])<<24 | uint32(b[off+1])<<16 | uint32(b[off+2])<<8 | uint32(b[off+3]),
		Fraction: uint32(b[off+4])<<24 | uint32(b[off+5])<<16 | uint32(b[off+6])<<8 | uint32(b[off+7])}
}

func add64(t ntp.Time64, d int64) ntp.Time64 {
	v := int64(t.Seconds)<<32 | int64(t.Fraction)
	v += d
	return ntp.Time64{Seconds: uint32(v >> 32), Fraction: uint32(v)}
}

func catalogue() []mut {
	var ms []mut
	same := func(f func(b []byte, req, prev ntp.Packet)) func([]byte, ntp.Packet, ntp.Packet) ([]byte, netip.AddrPort) {
		return func(g []byte, req, prev ntp.Packet) ([]byte, netip.AddrPort) {
			b := append([]byte{}, g...)
			f(b, req, prev)
			return b, srvAddr
		}
	}
	ms = append(ms, mut{"genuine", same(func([]byte, ntp.Packet, ntp.Packet) {})})
	for v := 0; v < 256; v++ {
		ms = append(ms, mut{fmt.Sprintf("first-byte=%#02x", v), same(func(b []byte, _, _ ntp.Packet) { b[0] = byte(v) })})
	}
	for _, st := range []byte{0, 2, 15, 16, 255} {
		ms = append(ms, mut{fmt.Sprintf("stratum=%d", st), same(func(b []byte, _, _ ntp.Packet) { b[1] = st })})
	}
	origins := map[string]func(req, prev ntp.Packet) ntp.Time64{
		"origin=req.tx":       func(r, _ ntp.Packet) ntp.Time64 { return r.TransmitTime },
		"origin=req.rx":       func(r, _ ntp.Packet) ntp.Time64 { return r.ReceiveTime },
		"origin=req.tx+1":     func(r, _ ntp.Packet) ntp.Time64 { return add64(r.TransmitTime, 1) },
		"origin=req.tx-1":     func(r, _ ntp.Packet) ntp.Time64 { return add64(r.TransmitTime, -1) },
		"origin=req.rx+1":     func(r, _ ntp.Packet) ntp.Time64 { return add64(r.ReceiveTime, 1) },
		"origin=req.origin":   func(r, _ ntp.Packet) ntp.Time64 { return r.OriginTime },
		"origin=0":            func(ntp.Packet, ntp.Packet) ntp.Time64 { return ntp.Time64{} },
		"origin=prev.origin":  func(_, p ntp.Packet) ntp.Time64 { return p.OriginTime },
		"origin=prev.receive": func(_, p ntp.Packet) ntp.Time64 { return p.ReceiveTime },
	}
	for _, n := range []string{"origin=req.tx", "origin=req.rx", "origin=req.tx+1", "origin=req.tx-1", "origin=req.rx+1", "origin=req.origin", "origin=0", "origin=prev.origin", "origin=prev.receive"} {
		f := origins[n]
		ms = append(ms, mut{n, same(func(b []byte, r, p ntp.Packet) { put64(b, 24, f(r, p)) })})
	}
	ms = append(ms,
		mut{"tx=rx-1", same(func(b []byte, _, _ ntp.Packet) { put64(b, 40, add64(get64(b, 32), -1)) })},
		mut{"tx=rx", same(func(b []byte, _, _ ntp.Packet) { put64(b, 40, get64(b, 32)) })},
		mut{"tx=rx-2^31s", same(func(b []byte, _, _ ntp.Packet) { put64(b, 40, add64(get64(b, 32), -(1<<63))) })},
		mut{"tx=0", same(func(b []byte, _, _ ntp.Packet) { put64(b, 40, ntp.Time64{}) })},
		mut{"rx=tx+1s", same(func(b []byte, _, _ ntp.Packet) { put64(b, 32, add64(get64(b, 40), 1<<32)) })},
	)
	for _, l := range []int{0, 1, 47, 49, 100} {
		ms = append(ms, mut{fmt.Sprintf("len=%d", l), func(g []byte, _, _ ntp.Packet) ([]byte, netip.AddrPort) {
			b := make([]byte, l)
			copy(b, g)
			return b, srvAddr
		}})
	}
	// two-field mutations: every origin value combined with every transmit/receive
	// relation (a forger controls all fields at once)
	txs := map[string]func(b []byte){
		"tx=0":       func(b []byte) { put64(b, 40, ntp.Time64{}) },
		"tx=rx=0":    func(b []byte) { put64(b, 40, ntp.Time64{}); put64(b, 32, ntp.Time64{}) },
		"tx=rx":      func(b []byte) { put64(b, 40, get64(b, 32)) },
		"tx=max":     func(b []byte) { put64(b, 40, ntp.Time64{Seconds: 0xffffffff, Fraction: 0xffffffff}) },
		"tx=rx+500s": func(b []byte) { put64(b, 40, add64(get64(b, 32), 500<<32)) },
		"tx=rx-1":    func(b []byte) { put64(b, 40, add64(get64(b, 32), -1)) },
	}
	for _, on := range []string{"origin=req.rx", "origin=0", "origin=req.origin", "origin=prev.origin", "origin=prev.receive", "origin=req.tx"} {
		of := origins[on]
		for _, tn := range []string{"tx=0", "tx=rx=0", "tx=rx", "tx=max", "tx=rx+500s", "tx=rx-1"} {
			tf := txs[tn]
			ms = append(ms, mut{on + "," + tn, same(func(b []byte, r, p ntp.Packet) { put64(b, 24, of(r, p)); tf(b) })})
		}
	}
	src := func(name string, ap netip.AddrPort) mut {
		return mut{name, func(g []byte, _, _ ntp.Packet) ([]byte, netip.AddrPort) { return append([]byte{}, g...), ap }}
	}
	ms = append(ms,
		src("src=other-host", netip.MustParseAddrPort("10.0.0.9:123")),
		src("src=other-port", netip.MustParseAddrPort("10.0.0.1:4000")),
		src("src=v4-mapped-server", netip.MustParseAddrPort("[::ffff:10.0.0.1]:123")),
		src("src=client-itself", netip.MustParseAddrPort("10.0.0.2:123")),
	)
	return ms
}

// acceptable is the statement's predicate on one datagram.
func acceptable(b []byte, from netip.AddrPort, req ntp.Packet, interleavedReq bool, prevSRx ntp.Time64, ref time.Time) bool {
	if from.Addr().Unmap() != srvAddr.Addr() {
		return false
	}
	if len(b) < 48 {
		return false
	}
	var p ntp.Packet
	ntp.DecodePacket(&p, b)
	interleavedResp := interleavedReq && p.OriginTime == req.ReceiveTime
	if !interleavedResp && p.OriginTime != req.TransmitTime {
		return false
	}
	if p.LeapIndicator() == 3 || (p.Version() != 3 && p.Version() != 4) || p.Mode() != ntp.ModeServer {
		return false
	}
	if p.Stratum == 0 || p.Stratum > 15 {
		return false
	}
	t1 := ntp.TimeFromTime64(p.ReceiveTime, ref)
	if interleavedResp {
		t1 = ntp.TimeFromTime64(prevSRx, ref)
	}
	t2 := ntp.TimeFromTime64(p.TransmitTime, ref)
	return !t2.Before(t1)
}

// program: `warm` undisturbed calls, then one call whose first request gets
// the scripted datagrams.
func program(r *mc.Run, interleaved bool, warm int, cat []mut) func(x *mc.X) {
	return func(x *mc.X) {
		world.Run(r.T, x, func(w *world.World) {
			s := kit.NewSim(w, x, kit.IPTransport, srvAddr)
			flt := &kit.RecFilter{}
			c := &client.IPClient{Log: w.Log, InterleavedMode: interleaved, Filter: flt}
			var prevResp ntp.Packet
			accepted := false
			call := func(script bool) (err error, consumed []*vnet.Datagram, reqPkt ntp.Packet, ilReq bool, prevSRx ntp.Time64, ref time.Time) {
				ctx, cancel := context.WithTimeout(context.Background(), time.Second)
				defer cancel()
				deadline := time.Now().Add(time.Second)
				th := w.Go("client", func() {
					_, _, err = client.MeasureClockOffsetIP(ctx, w.Log, c, &net.UDPAddr{IP: clientIP, Zone: clientZone}, net.UDPAddrFromAddrPort(srvAddr))
				})
				scripted := false
				for {
					w.Settle()
					w.CheckPanics()
					if th.Finished() {
						return
					}
					var sock *vnet.UDPConn
					for _, sk := range w.Net.Open() {
						if !sk.Closed() && sk.Reading.Load() {
							sock = sk
						}
					}
					if sock == nil {
						x.Failf("harness", "client neither finished nor reading")
					}
					reqs := s.NewRequests()
					if len(reqs) == 0 {
						time.Sleep(time.Until(deadline) + 1)
						continue
					}
					d := reqs[len(reqs)-1]
					rp := s.Serve(d, time.Millisecond)
					if !script || scripted {
						prevResp = rp.E.Resp
						s.Deliver(rp, sock, time.Millisecond)
						continue
					}
					scripted = true
					ntp.DecodePacket(&reqPkt, d.Data)
					ilReq = reqPkt.OriginTime != (ntp.Time64{})
					prevSRx = reqPkt.OriginTime
					ref = w.Clock.Peek()
					time.Sleep(time.Millisecond)
					for k := 0; k < 2 && !sock.Closed() && !th.Finished(); k++ {
						m := cat[x.Choose(len(cat), fmt.Sprintf("datagram%d", k))]
						b, from := m.f(rp.D.Data, reqPkt, prevResp)
						dg := &vnet.Datagram{From: from, To: d.From, Data: b, RxTime: w.Clock.Peek(), Tag: m.name}
						x.Logf("peer sends %s", m.name)
						reads := sock.Reads.Load()
						nf := len(flt.Calls)
						sock.Deliver(dg)
						w.Settle()
						w.CheckPanics()
						if sock.Reads.Load() > reads {
							consumed = append(consumed, dg)
						}
						if len(flt.Calls) > nf {
							// the client evaluated this datagram as a response
							if !acceptable(dg.Data, dg.From, reqPkt, ilReq, prevSRx, ref) {
								x.Failf("unjustified-acceptance", "client evaluated datagram %q (from %v, %d bytes, %x) as the response to request origin=%v rx=%v tx=%v: the acceptance predicate does not hold", dg.Tag, dg.From, len(dg.Data), dg.Data, reqPkt.OriginTime, reqPkt.ReceiveTime, reqPkt.TransmitTime)
							}
							accepted = true
						} else if m.name == "genuine" && k == 0 {
							x.Failf("genuine-response-rejected", "the unmutated response was not accepted")
						}
						x.Transitions++
					}
					// whatever happens next in this call is undisturbed
				}
			}
			for i := 0; i < warm; i++ {
				if err, _, _, _, _, _ := call(false); err != nil {
					x.Failf("genuine-response-rejected", "undisturbed call %d failed: %v", i, err)
				}
				time.Sleep(500 * time.Millisecond)
			}
			nflt := len(flt.Calls)
			err, consumed, _, _, _, _ := call(true)
			x.Observe(err == nil, len(consumed), len(flt.Calls)-nflt, accepted)
		})
	}
}

func TestCheck(t *testing.T) {
	mc.Main(t, "C05", func(r *mc.Run) {
		cat := catalogue()
		for _, il := range []bool{false, true} {
			for _, warm := range []int{0, 1} {
				if !il && warm > 0 {
					continue
				}
				r.Explore(mc.Config{Name: fmt.Sprintf("ip/interleaved=%v/warm=%d", il, warm), Bound: -1}, program(r, il, warm, cat))
			}
		}
		// the same over SCION: NTP-level catalogue x SCION-level mutations (first datagram
		// free, second within the deviation bound)
		for _, il := range []bool{false, true} {
			warm := 0
			if il {
				warm = 1
			}
			r.Explore(mc.Config{Name: fmt.Sprintf("scion/interleaved=%v", il), Bound: mc.Pick(r, 2, 3)}, programSCION(r, il, warm, cat))
		}
		// a link-local server reached through one interface: the zone is part of "the queried server"
		func() {
			sa, ci, cz := srvAddr, clientIP, clientZone
			defer func() { srvAddr, clientIP, clientZone = sa, ci, cz }()
			srvAddr = netip.MustParseAddrPort("[fe80::1%eth0]:123")
			clientIP, clientZone = net.ParseIP("fe80::2"), "eth0"
			zsrc := func(name, ap string) mut {
				return mut{name, func(g []byte, _, _ ntp.Packet) ([]byte, netip.AddrPort) {
					return append([]byte{}, g...), netip.MustParseAddrPort(ap)
				}}
			}
			zcat := []mut{cat[0], zsrc("src=other-zone", "[fe80::1%eth1]:123"), zsrc("src=no-zone", "[fe80::1]:123"), zsrc("src=other-host-same-zone", "[fe80::3%eth0]:123"),
				zsrc("src=client-itself", "[fe80::2%eth0]:123"), zsrc("src=other-port", "[fe80::1%eth0]:124")}
			for _, m := range cat {
				if strings.HasPrefix(m.name, "origin=") || strings.HasPrefix(m.name, "stratum=") {
					zcat = append(zcat, m)
				}
			}
			for _, il := range []bool{false, true} {
				warm := 0
				if il {
					warm = 1
				}
				r.Explore(mc.Config{Name: fmt.Sprintf("ip-zoned/interleaved=%v", il), Bound: -1}, program(r, il, warm, zcat))
			}
		}()
		// NTS over IP against the real listener and key exchange
		r.Explore(mc.Config{Name: "ip-nts", Bound: -1}, programNTS(r, cat))
		r.Explore(mc.Config{Name: "scion-nts", Bound: -1}, programSCIONNTS(r, cat))
		r.Explore(mc.Config{Name: "scion-spao", Bound: -1}, programSCIONAuth(r))
		r.Extra["catalogue_size"] = len(cat)
		r.Extra["rule"] = "real IPClient and real SCIONClient, plain and NTS-protected against the real listeners / key exchange (NTS adds: previous genuine response, flipped authenticator byte, NTS fields stripped, previous response under this header) and real SCIONClient (NTP-level catalogue x 15 SCION-level mutations: wrong source / destination ISD-AS or host, source / destination host bytes under the service address type, SCMP, other L4, UDP length beyond the datagram, ...), an authenticating SCIONClient against the authenticating listener (the authenticated response with source / destination ISD-AS or host rewritten), basic request (no history) and interleaved request (after one undisturbed call): every ordered pair of datagrams from a catalogue of the genuine response and its single-field mutations (all 256 first bytes, stratum, 9 origin values, tx/rx order incl. era wrap, 36 origin x transmit/receive combinations, lengths, 4 source addresses; for a link-local IPv6 server reached through one interface also the same address in another zone / without zone / another host in the zone) is delivered before the genuine response; success must be justified by the acceptance predicate on the consumed datagram"
	})
}
