// C16: a measurement round ends by its deadline, counts each result once and
// leaks nothing (DESIGN.md C16). ReferenceClockClient.MeasureClockOffsets runs
// in a synctest bubble; clock callbacks are parked harness functions; every
// total order of {clock returns, cancellation} is explored.
package c16

import (
	"context"
	"errors"
	"flag"
	"fmt"
	"strings"
	"sync"
	"testing"
	"time"

	"example.com/scion-time/core/client"
	"example.com/scion-time/core/measurements"

	"verif.local/mc"
	"verif.local/sched"
	"verif.local/world"
)

var mode = flag.String("vmode", "seq", "seq|race|sched")

const (
	dispEvent       = iota // returns when the explorer releases it
	dispAfterCancel        // returns only once the context is done
	dispNever              // released after the oracle ran
)

type clk struct {
	id      int
	ok      bool
	disp    int
	release chan struct{}
	entered bool
	exited  bool
}

var errClock = errors.New("clock failed")

func (c *clk) MeasureClockOffset(ctx context.Context) (time.Time, time.Duration, error) {
	c.entered = true
	defer func() { c.exited = true }()
	switch c.disp {
	case dispAfterCancel:
		select {
		case <-ctx.Done():
		case <-c.release:
		}
	default:
		<-c.release
	}
	if !c.ok {
		return time.Time{}, 0, errClock
	}
	return world.Epoch.Add(time.Duration(c.id) * time.Second), time.Duration(100 + c.id), nil
}

const timeout = 500 * time.Millisecond

func program(r *mc.Run, n int, useDeadline bool) func(x *mc.X) {
	return func(x *mc.X) {
		world.Run(r.T, x, func(w *world.World) {
			clocks := make([]*clk, n)
			refs := make([]client.ReferenceClock, n)
			for i := range clocks {
				k := x.Choose(6, fmt.Sprintf("clock%d", i))
				clocks[i] = &clk{id: i, ok: k%2 == 0, disp: k / 2, release: make(chan struct{})}
				refs[i] = clocks[i]
			}
			sentinel := measurements.Measurement{Offset: -777}
			ms := make([]measurements.Measurement, n)
			for i := range ms {
				ms[i] = sentinel
			}
			g0 := world.BubbleGoroutines()
			start := time.Now()
			var ctx context.Context
			var cancel context.CancelFunc
			if useDeadline {
				ctx, cancel = context.WithTimeout(context.Background(), timeout)
			} else {
				ctx, cancel = context.WithCancel(context.Background())
			}
			defer cancel()
			// the round's context may already be over when the collection starts
			// (a caller that was itself delayed)
			preCancelled := x.Choose(2, "context-over-at-start") == 1
			if preCancelled {
				cancel()
			}
			var rc client.ReferenceClockClient
			var retAt time.Time
			returned := false
			w.Go("collector", func() {
				rc.MeasureClockOffsets(ctx, refs, ms)
				retAt = time.Now()
				returned = true
			})
			w.Settle()
			w.CheckPanics()
			var expect []measurements.Measurement
			delivered, cancelled := 0, preCancelled
			mustReturn := func() bool { return delivered == n || cancelled }
			for {
				if returned != mustReturn() {
					x.Failf("round-return-timing", "after %d of %d clock results, cancelled=%v: returned=%v", delivered, n, cancelled, returned)
				}
				if returned {
					break
				}
				// events: release one of the event-type clocks still parked, or cancel
				var ev []int
				for i, c := range clocks {
					if c.disp == dispEvent && !c.exited {
						ev = append(ev, i)
					}
				}
				k := x.Choose(len(ev)+1, "event")
				if k == len(ev) {
					x.Logf("cancel")
					if useDeadline {
						time.Sleep(time.Until(start.Add(timeout)))
					} else {
						cancel()
					}
					cancelled = true
				} else {
					c := clocks[ev[k]]
					x.Logf("clock %d returns ok=%v", c.id, c.ok)
					close(c.release)
					delivered++
					if c.ok {
						expect = append(expect, measurements.Measurement{Timestamp: world.Epoch.Add(time.Duration(c.id) * time.Second), Offset: time.Duration(100 + c.id)})
					}
				}
				x.Transitions++
				w.Settle()
				w.CheckPanics()
			}
			if retAt.After(start.Add(timeout)) && useDeadline {
				x.Failf("round-after-deadline", "returned at +%v, deadline +%v", retAt.Sub(start), timeout)
			}
			for i := range ms {
				if preCancelled {
					// clocks that answer the moment they see the context over race with the
					// collector seeing the same: their results may or may not count
					break
				}
				want := sentinel
				if i < len(expect) {
					want = expect[i]
				}
				if ms[i].Offset != want.Offset || !ms[i].Timestamp.Equal(want.Timestamp) || (ms[i].Error != nil) != (want.Error != nil) {
					x.Failf("round-results", "results %v, want the in-time successes in arrival order %v followed by untouched entries", fmtMs(ms), fmtMs(expect))
				}
			}
			x.Observe(len(expect), delivered, cancelled)
			// late results after the round returned must not change the slice
			for _, c := range clocks {
				if !c.exited && c.disp != dispAfterCancel {
					close(c.release)
				}
			}
			snapshot := append([]measurements.Measurement{}, ms...)
			cancel()
			w.Settle()
			for i := range ms {
				want := sentinel
				if i < len(expect) {
					want = expect[i]
				}
				if preCancelled {
					want = snapshot[i] // (what counted at the start is left open, see above)
				}
				if ms[i].Offset != want.Offset {
					x.Failf("late-result-counted", "a result that arrived after the round ended changed the slice: %v", fmtMs(ms))
				}
			}
			for _, c := range clocks {
				if !c.exited {
					x.Failf("harness", "clock %d did not return", c.id)
				}
			}
			if g := world.BubbleGoroutines(); g > g0 {
				x.Failf("goroutine-leak", "%d goroutines before the round, %d after every clock returned", g0, g)
			}
		})
	}
}

// rounds: consecutive collections on one collector (as the sync loop runs them),
// where clocks of an earlier round may still be busy while the next round runs
// and return at any point of it. Every round is judged on its own clocks only.
func rounds(r *mc.Run, nrounds, n int) func(x *mc.X) {
	return func(x *mc.X) {
		world.Run(r.T, x, func(w *world.World) {
			var rc client.ReferenceClockClient
			g0 := world.BubbleGoroutines()
			var stragglers []*clk
			var all []*clk
			for round := 0; round < nrounds; round++ {
				clocks := make([]*clk, n)
				refs := make([]client.ReferenceClock, n)
				for i := range clocks {
					k := x.Choose(4, fmt.Sprintf("round%d-clock%d", round, i))
					clocks[i] = &clk{id: 10*round + i, ok: k%2 == 0, disp: []int{dispEvent, dispNever}[k/2], release: make(chan struct{})}
					refs[i] = clocks[i]
				}
				all = append(all, clocks...)
				sentinel := measurements.Measurement{Offset: -777}
				ms := make([]measurements.Measurement, n)
				for i := range ms {
					ms[i] = sentinel
				}
				start := time.Now()
				ctx, cancel := context.WithTimeout(context.Background(), timeout)
				returned := false
				var retAt time.Time
				w.Go(fmt.Sprintf("collector%d", round), func() {
					rc.MeasureClockOffsets(ctx, refs, ms)
					retAt = time.Now()
					returned = true
				})
				w.Settle()
				w.CheckPanics()
				var expect []measurements.Measurement
				delivered, cancelled := 0, false
				for {
					if must := delivered == n || cancelled; returned != must {
						x.Failf("round-return-timing", "round %d: after %d of %d own clock results, deadline passed=%v: returned=%v", round, delivered, n, cancelled, returned)
					}
					if returned {
						break
					}
					var ev []*clk
					for _, c := range clocks {
						if c.disp == dispEvent && !c.exited {
							ev = append(ev, c)
						}
					}
					nown := len(ev)
					for _, c := range stragglers {
						if !c.exited {
							ev = append(ev, c)
						}
					}
					k := x.Choose(len(ev)+1, "event")
					switch {
					case k == len(ev):
						x.Logf("round %d: deadline", round)
						time.Sleep(time.Until(start.Add(timeout)))
						cancelled = true
					case k < nown:
						c := ev[k]
						x.Logf("round %d: clock %d returns ok=%v", round, c.id, c.ok)
						close(c.release)
						delivered++
						if c.ok {
							expect = append(expect, measurements.Measurement{Timestamp: world.Epoch.Add(time.Duration(c.id) * time.Second), Offset: time.Duration(100 + c.id)})
						}
					default:
						c := ev[k]
						x.Logf("round %d: clock %d of an earlier round returns", round, c.id)
						close(c.release)
					}
					x.Transitions++
					w.Settle()
					w.CheckPanics()
				}
				cancel()
				if retAt.After(start.Add(timeout)) {
					x.Failf("round-after-deadline", "round %d returned at +%v, deadline +%v", round, retAt.Sub(start), timeout)
				}
				for i := range ms {
					want := sentinel
					if i < len(expect) {
						want = expect[i]
					}
					if ms[i].Offset != want.Offset || !ms[i].Timestamp.Equal(want.Timestamp) || (ms[i].Error != nil) != (want.Error != nil) {
						x.Failf("round-results", "round %d: results %v, want the in-time successes of this round's clocks in arrival order %v followed by untouched entries", round, fmtMs(ms), fmtMs(expect))
					}
				}
				x.Observe(round, len(expect), delivered)
				for _, c := range clocks {
					if !c.exited {
						stragglers = append(stragglers, c)
					}
				}
				time.Sleep(time.Millisecond)
			}
			for _, c := range all {
				if !c.exited {
					close(c.release)
				}
			}
			w.Settle()
			w.CheckPanics()
			if g := world.BubbleGoroutines(); g > g0 {
				x.Failf("goroutine-leak", "%d goroutines before the rounds, %d after every clock returned", g0, g)
			}
		})
	}
}

func fmtMs(ms []measurements.Measurement) string {
	var b strings.Builder
	for _, m := range ms {
		fmt.Fprintf(&b, "{%v %v}", int64(m.Offset), m.Error)
	}
	return b.String()
}

// guard: two collections on one collector under all interleavings of the guard's compare-and-swaps.
func guard(r *mc.Run) {
	r.Explore(mc.Config{Name: "guard", Bound: -1}, func(x *mc.X) {
		world.Run(r.T, x, func(w *world.World) {
			var rc client.ReferenceClockClient
			s := sched.New(x)
			defer s.Close()
			mk := func(n int, rel chan struct{}) ([]client.ReferenceClock, []measurements.Measurement) {
				refs := make([]client.ReferenceClock, n)
				for i := range refs {
					refs[i] = &clk{id: i, ok: true, disp: dispEvent, release: rel}
				}
				return refs, make([]measurements.Measurement, n)
			}
			relA := make(chan struct{})
			refsA, msA := mk(1, relA)
			refsB, msB := mk(0, nil)
			pan := map[string]any{}
			run := func(name string, refs []client.ReferenceClock, ms []measurements.Measurement) func() {
				return func() {
					defer func() {
						if v := recover(); v != nil {
							pan[name] = v
						}
					}()
					rc.MeasureClockOffsets(context.Background(), refs, ms)
				}
			}
			s.Go("A", run("A", refsA, msA))
			s.Go("B", run("B", refsB, msB))
			s.Go("env", func() { close(relA) })
			ok := s.Run()
			x.Transitions += int64(s.Steps)
			if !ok {
				x.Failf("deadlock", "log %v", s.Log)
			}
			// expected from the order of the guard operations: a thread is
			// refused iff its first compare-and-swap falls between the other's
			// successful first and its last
			inProg := ""
			want := map[string]bool{}
			seen := map[string]int{}
			for _, e := range s.Log {
				th, kind, _ := strings.Cut(e, ":")
				if kind != "cas" {
					continue
				}
				seen[th]++
				if seen[th] == 1 {
					if inProg != "" {
						want[th] = true
					} else {
						inProg = th
					}
				} else if inProg == th {
					inProg = ""
				}
			}
			for _, th := range []string{"A", "B"} {
				_, got := pan[th]
				if got != want[th] {
					x.Failf("second-collection-guard", "guard operations %v: thread %s refused=%v, want %v (panics %v)", s.Log, th, got, want[th], pan)
				}
				if got && !strings.Contains(fmt.Sprint(pan[th]), "too many reference clock offset measurements in progress") {
					x.Failf("second-collection-guard", "thread %s panicked with %v", th, pan[th])
				}
			}
			if !want["A"] && msA[0].Offset != 100 {
				x.Failf("first-collection-disturbed", "collection A returned %v", fmtMs(msA))
			}
			// the collector is usable again
			func() {
				defer func() {
					if v := recover(); v != nil {
						x.Failf("guard-stuck", "a third collection after both ended panicked: %v", v)
					}
				}()
				s.Close()
				rc.MeasureClockOffsets(context.Background(), refsB, msB)
			}()
			x.Observe(fmt.Sprint(want))
		})
	})
}

func racePass(r *mc.Run) {
	if r.Replaying() {
		return
	}
	iters := mc.Pick(r, 2000, 20000)
	for it := 0; it < iters; it++ {
		var rc client.ReferenceClockClient
		n := 4
		refs := make([]client.ReferenceClock, n)
		for i := range refs {
			c := &clk{id: i, ok: i%2 == 0, disp: dispEvent, release: make(chan struct{})}
			if i%3 == 0 {
				c.disp = dispAfterCancel
			}
			refs[i] = c
			if c.disp == dispEvent {
				close(c.release)
			}
		}
		ms := make([]measurements.Measurement, n)
		ctx, cancel := context.WithTimeout(context.Background(), time.Duration(it%3)*50*time.Microsecond)
		var wg sync.WaitGroup
		wg.Add(1)
		go func() { defer wg.Done(); rc.MeasureClockOffsets(ctx, refs, ms) }()
		wg.Wait()
		cancel()
		_ = ms[0]
	}
	r.Evals += int64(iters)
	r.Distinct += int64(iters)
	r.Sample(map[string]any{"rounds": iters, "clocks": 4})
}

func TestCheck(t *testing.T) {
	mc.Main(t, "C16", func(r *mc.Run) {
		switch *mode {
		case "race":
			racePass(r)
		case "sched":
			guard(r)
		default:
			maxN := mc.Pick(r, 5, 6)
			for n := 0; n <= maxN; n++ {
				for _, dl := range []bool{true, false} {
					r.Explore(mc.Config{Name: fmt.Sprintf("collect/n%d/deadline=%v", n, dl), Bound: -1}, program(r, n, dl))
				}
			}
			// consecutive rounds on one collector with clocks of earlier rounds still busy
			r.Explore(mc.Config{Name: "rounds/2x2", Bound: -1}, rounds(r, 2, 2))
			r.Explore(mc.Config{Name: "rounds/3x2", Bound: mc.Pick(r, 3, 5)}, rounds(r, 3, 2))
			r.Explore(mc.Config{Name: "rounds/2x3", Bound: mc.Pick(r, 3, 5)}, rounds(r, 2, 3))
			r.Extra["rule"] = "n in 0..5 (6) clocks, each {ok,error} x {returns as an event, returns only after cancellation, never returns until released at the end}; all total orders of clock returns and the cancellation (explicit cancel, virtual deadline, context already over at the start); 2 and 3 consecutive rounds of 2 or 3 clocks on one collector where clocks of an earlier round return at any point of a later one (each round judged on its own clocks); second collection on the same collector under all interleavings of the guard's compare-and-swap operations"
		}
	})
}
