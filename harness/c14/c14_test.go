// C14: wire codecs are exact inverses and preserve field kinds; an NTS-KE
// record stream decodes identically under every segmentation (DESIGN.md C14).
package c14

import (
	"bufio"
	"bytes"
	"context"
	"encoding/binary"
	"fmt"
	"io"
	"reflect"
	"testing"

	"example.com/scion-time/net/csptp"
	"example.com/scion-time/net/ntp"
	"example.com/scion-time/net/nts"
	"example.com/scion-time/net/ntske"

	"verif.local/mc"
	"verif.local/world"
)

type in struct {
	Kind string `json:"kind"`
	Hex  string `json:"hex,omitempty"`
	P    []int  `json:"p,omitempty"`
}

func bases(n int) [][]byte {
	out := make([][]byte, 3)
	for k := range out {
		b := make([]byte, n)
		for i := range b {
			switch k {
			case 1:
				b[i] = 0xff
			case 2:
				b[i] = byte(37*i + 11)
			}
		}
		out[k] = b
	}
	return out
}

// byteLevel: for every base, every position (and every adjacent pair of
// positions when pairs is set) and every value: decode -> encode reproduces
// the bytes, and decode(encode(v)) == v.
func byteLevel(r *mc.Run, scen string, n int, pairs bool, roundtrip func(b []byte) (string, bool)) {
	for _, base := range bases(n) {
		for pos := 0; pos < n; pos++ {
			b := bytes.Clone(base)
			lim := 256
			if pairs && pos+1 < n {
				lim = 65536
			}
			for v := 0; v < lim; v++ {
				if lim == 256 {
					b[pos] = byte(v)
				} else {
					b[pos], b[pos+1] = byte(v>>8), byte(v)
				}
				r.Evals++
				if msg, ok := roundtrip(b); !ok {
					r.Fail(scen, scen+"-roundtrip", fmt.Sprintf("bytes %x: %s", b, msg), in{Kind: scen, Hex: fmt.Sprintf("%x", b)})
				}
			}
			r.Distinct += int64(lim)
		}
	}
}

// dirty fills every field of the struct p points to with a non-zero pattern: a
// destination that was used for an earlier, different message.
func dirty(p any) {
	var fillv func(v reflect.Value)
	fillv = func(v reflect.Value) {
		switch v.Kind() {
		case reflect.Struct:
			for i := 0; i < v.NumField(); i++ {
				fillv(v.Field(i))
			}
		case reflect.Array:
			for i := 0; i < v.Len(); i++ {
				fillv(v.Index(i))
			}
		case reflect.Uint8, reflect.Uint16, reflect.Uint32, reflect.Uint64:
			v.SetUint(0xa5a5a5a5a5a5a5a5 & (1<<(8*uint(v.Type().Size())) - 1))
		case reflect.Int8, reflect.Int16, reflect.Int32, reflect.Int64:
			v.SetInt(0x5a5a5a5a5a5a5a5a & (1<<(8*uint(v.Type().Size())-1) - 1))
		}
	}
	fillv(reflect.ValueOf(p).Elem())
}

func ntpRT(b []byte) (string, bool) {
	var p, q ntp.Packet
	if err := ntp.DecodePacket(&p, b); err != nil {
		return err.Error(), false
	}
	if p.LeapIndicator() != b[0]>>6 || p.Version() != (b[0]>>3)&7 || p.Mode() != b[0]&7 {
		return fmt.Sprintf("accessors LI=%d VN=%d mode=%d disagree with first byte %#02x", p.LeapIndicator(), p.Version(), p.Mode(), b[0]), false
	}
	var e []byte
	ntp.EncodePacket(&e, &p)
	if !bytes.Equal(e, b[:48]) {
		return fmt.Sprintf("re-encoded %x", e), false
	}
	if err := ntp.DecodePacket(&q, e); err != nil || q != p {
		return fmt.Sprintf("decode(encode(p)) = %+v, p = %+v", q, p), false
	}
	dirty(&q)
	if err := ntp.DecodePacket(&q, e); err != nil || q != p {
		return fmt.Sprintf("decode(encode(p)) into a used destination = %+v, p = %+v", q, p), false
	}
	// setters agree with accessors
	var s ntp.Packet
	s.SetLeapIndicator(p.LeapIndicator())
	s.SetVersion(p.Version())
	s.SetMode(p.Mode())
	if s.LVM != p.LVM {
		return fmt.Sprintf("setters give LVM %#02x, want %#02x", s.LVM, p.LVM), false
	}
	return "", true
}

func csptpMsgRT(b []byte) (string, bool) {
	var m, q csptp.Message
	if err := csptp.DecodeMessage(&m, b); err != nil {
		return err.Error(), false
	}
	e := make([]byte, csptp.MinMessageLength)
	csptp.EncodeMessage(e, &m)
	if !bytes.Equal(e, b[:44]) {
		return fmt.Sprintf("re-encoded %x", e), false
	}
	if err := csptp.DecodeMessage(&q, e); err != nil || q != m {
		return "decode(encode(m)) != m", false
	}
	dirty(&q)
	if err := csptp.DecodeMessage(&q, e); err != nil || q != m {
		return "decode(encode(m)) into a used destination != m", false
	}
	return "", true
}

func csptpReqRT(b []byte) (string, bool) {
	var v, q csptp.RequestTLV
	if err := csptp.DecodeRequestTLV(&v, b); err != nil {
		return err.Error(), false
	}
	n := csptp.EncodedRequestTLVLength(&v)
	if n != 36 && n != 54 {
		return fmt.Sprintf("declared length %d", n), false
	}
	e := make([]byte, n)
	csptp.EncodeRequestTLV(e, &v)
	if !bytes.Equal(e[:14], b[:14]) {
		return fmt.Sprintf("re-encoded %x", e), false
	}
	for _, z := range e[14:] {
		if z != 0 {
			return "padding not zero", false
		}
	}
	if err := csptp.DecodeRequestTLV(&q, e); err != nil || q != v {
		return fmt.Sprintf("decode(encode(v)) = %+v (%v), v = %+v", q, err, v), false
	}
	dirty(&q)
	if err := csptp.DecodeRequestTLV(&q, e); err != nil || q != v {
		return fmt.Sprintf("decode(encode(v)) into a used destination = %+v (%v), v = %+v", q, err, v), false
	}
	return "", true
}

func csptpRespRT(b []byte) (string, bool) {
	var v, q csptp.ResponseTLV
	if err := csptp.DecodeResponseTLV(&v, b); err != nil {
		return err.Error(), false
	}
	n := csptp.EncodedResponseTLVLength(&v)
	if n != 36 && n != 54 {
		return fmt.Sprintf("declared length %d", n), false
	}
	e := make([]byte, n)
	csptp.EncodeResponseTLV(e, &v)
	if !bytes.Equal(e, b[:n]) {
		return fmt.Sprintf("re-encoded %x", e), false
	}
	if err := csptp.DecodeResponseTLV(&q, e); err != nil || q != v {
		return fmt.Sprintf("decode(encode(v)) = %+v (%v), v = %+v", q, err, v), false
	}
	dirty(&q)
	if err := csptp.DecodeResponseTLV(&q, e); err != nil || q != v {
		return fmt.Sprintf("decode(encode(v)) into a used destination = %+v (%v), v = %+v", q, err, v), false
	}
	return "", true
}

func pad4(n int) int { return (n + 3) &^ 3 }

func fill(n int, seed byte) []byte {
	b := make([]byte, n)
	for i := range b {
		b[i] = seed + byte(i*5) | 1
	}
	return b
}

// ntsShapes: every request/response shape the packet type can express within 1024 bytes.
func ntsShapes(r *mc.Run) {
	key := fill(32, 9)
	hdr := make([]byte, 48)
	hdr[0] = 0x23
	for _, uidLen := range []int{32, 33, 35, 36, 64} {
		for _, ckLen := range []int{0, 1, 2, 3, 4, 5, 8, 100, 124, 128} {
			for nck := 1; nck <= 8; nck++ {
				for nph := 0; nph <= 7; nph++ {
					size := 48 + 4 + pad4(uidLen) + (nck+nph)*(4+pad4(ckLen)) + 4 + 4 + 16 + 16
					if size > nts.MaxPacketLen {
						continue
					}
					shape := []int{uidLen, ckLen, nck, nph}
					var pkt nts.Packet
					pkt.UniqueID.ID = fill(uidLen, 1)
					for i := 0; i < nck; i++ {
						pkt.Cookies = append(pkt.Cookies, nts.Cookie{Cookie: fill(ckLen, byte(10+i))})
					}
					for i := 0; i < nph; i++ {
						pkt.CookiePlaceholders = append(pkt.CookiePlaceholders, nts.CookiePlaceholder{Cookie: make([]byte, ckLen)})
					}
					pkt.Auth.Key = key
					buf := bytes.Clone(hdr)
					nts.EncodePacket(&buf, &pkt)
					r.Evals++
					r.Distinct++
					fail := func(sig, format string, a ...any) {
						r.Fail("nts", sig, fmt.Sprintf("shape uid=%d cookie=%d cookies=%d placeholders=%d: ", uidLen, ckLen, nck, nph)+fmt.Sprintf(format, a...), in{Kind: "nts", P: shape})
					}
					if len(buf) != size {
						fail("nts-encoded-size", "encoded %d bytes, fields add up to %d", len(buf), size)
					}
					// walk the fields: alignment and kinds on the wire
					var kinds []uint16
					for pos := 48; pos < len(buf); {
						if pos%4 != 0 {
							fail("nts-field-unaligned", "field at offset %d", pos)
							break
						}
						typ := binary.BigEndian.Uint16(buf[pos:])
						l := int(binary.BigEndian.Uint16(buf[pos+2:]))
						if l%4 != 0 || l < 4 || pos+l > len(buf) {
							fail("nts-field-unaligned", "field type %#x at %d has length %d", typ, pos, l)
							break
						}
						kinds = append(kinds, typ)
						pos += l
					}
					want := []uint16{0x104}
					for i := 0; i < nck; i++ {
						want = append(want, 0x204)
					}
					for i := 0; i < nph; i++ {
						want = append(want, 0x304)
					}
					want = append(want, 0x404)
					if !reflect.DeepEqual(kinds, want) {
						fail("nts-field-kind-on-wire", "field types on the wire %#x, encoded kinds %#x", kinds, want)
					}
					var dec nts.Packet
					if err := nts.DecodePacket(&dec, buf); err != nil {
						fail("nts-decode-error", "%v", err)
						continue
					}
					if len(dec.Cookies) != nck || len(dec.CookiePlaceholders) != nph {
						fail("nts-kind-not-preserved", "decoded %d cookies and %d placeholders", len(dec.Cookies), len(dec.CookiePlaceholders))
						continue
					}
					if len(dec.UniqueID.ID) != pad4(uidLen) || !bytes.Equal(dec.UniqueID.ID[:uidLen], pkt.UniqueID.ID) || !allZero(dec.UniqueID.ID[uidLen:]) {
						fail("nts-unique-id-content", "decoded id %x", dec.UniqueID.ID)
					}
					for i, c := range dec.Cookies {
						if len(c.Cookie) != pad4(ckLen) || !bytes.Equal(c.Cookie[:ckLen], pkt.Cookies[i].Cookie) || !allZero(c.Cookie[ckLen:]) {
							fail("nts-cookie-content", "cookie %d decoded %x want %x", i, c.Cookie, pkt.Cookies[i].Cookie)
						}
					}
					if len(dec.Auth.Nonce) != 16 || len(dec.Auth.CipherText) != 16 {
						fail("nts-authenticator-content", "nonce %d ciphertext %d bytes", len(dec.Auth.Nonce), len(dec.Auth.CipherText))
					}
					if err := nts.ProcessRequest(buf, key, &dec); err != nil {
						fail("nts-own-encoding-rejected", "ProcessRequest: %v", err)
					}
				}
			}
		}
	}
	// responses: cookies travel encrypted inside the authenticator
	for _, ckLen := range []int{100, 104, 124} { // the response builder sizes its buffer for 4-byte aligned cookies (the servers issue 124-byte cookies)
		for n := 1; n <= 8; n++ {
			size := 48 + 4 + 32 + 4 + 4 + 16 + 16 + n*(4+pad4(ckLen))
			if size > nts.MaxPacketLen {
				continue
			}
			var cookies [][]byte
			for i := 0; i < n; i++ {
				cookies = append(cookies, fill(ckLen, byte(40+i)))
			}
			uid := fill(32, 3)
			resp := nts.NewResponsePacket(cookies, key, uid)
			buf := bytes.Clone(hdr)
			nts.EncodePacket(&buf, &resp)
			r.Evals++
			r.Distinct++
			var dec nts.Packet
			var f ntske.Fetcher
			err := nts.DecodePacket(&dec, buf)
			if err == nil {
				err = nts.ProcessResponse(buf, key, &f, &dec, uid)
			}
			if err != nil {
				r.Fail("nts", "nts-own-encoding-rejected", fmt.Sprintf("response with %d cookies of %d bytes: %v", n, ckLen, err), in{Kind: "ntsresp", P: []int{ckLen, n}})
				continue
			}
			d, _ := f.FetchData(context.Background())
			ok := len(d.Cookie) == n
			for i := 0; ok && i < n; i++ {
				ok = len(d.Cookie[i]) == pad4(ckLen) && bytes.Equal(d.Cookie[i][:ckLen], cookies[i]) && allZero(d.Cookie[i][ckLen:])
			}
			if !ok {
				r.Fail("nts", "nts-response-cookies", fmt.Sprintf("response with %d cookies of %d bytes decoded to %x", n, ckLen, d.Cookie), in{Kind: "ntsresp", P: []int{ckLen, n}})
			}
		}
	}
}

func allZero(b []byte) bool {
	for _, x := range b {
		if x != 0 {
			return false
		}
	}
	return true
}

func cookies(r *mc.Run) {
	for _, kl := range []int{0, 16, 32, 64} {
		for _, algo := range []uint16{0, 15, 0xffff} {
			sc := ntske.ServerCookie{Algo: algo, S2C: fill(kl, 1), C2S: fill(kl, 2)}
			var d ntske.ServerCookie
			err := d.Decode(sc.Encode())
			r.Evals++
			r.Distinct++
			if err != nil || d.Algo != sc.Algo || !bytes.Equal(d.S2C, sc.S2C) || !bytes.Equal(d.C2S, sc.C2S) {
				r.Fail("cookie", "server-cookie-roundtrip", fmt.Sprintf("key length %d algo %d: %+v (%v)", kl, algo, d, err), in{Kind: "cookie", P: []int{kl, int(algo)}})
			}
			for _, nl := range []int{0, 16} {
				for _, cl := range []int{0, 16, 90} {
					ec := ntske.EncryptedServerCookie{ID: algo, Nonce: fill(nl, 3), Ciphertext: fill(cl, 4)}
					var e ntske.EncryptedServerCookie
					err := e.Decode(ec.Encode())
					r.Evals++
					r.Distinct++
					if err != nil || e.ID != ec.ID || !bytes.Equal(e.Nonce, ec.Nonce) || !bytes.Equal(e.Ciphertext, ec.Ciphertext) {
						r.Fail("cookie", "encrypted-cookie-roundtrip", fmt.Sprintf("nonce %d ciphertext %d: %+v (%v)", nl, cl, e, err), in{Kind: "ecookie", P: []int{nl, cl}})
					}
				}
			}
			if kl == 32 {
				k := fill(32, 7)
				ec, err := sc.EncryptWithNonce(k, 77)
				var back ntske.ServerCookie
				if err == nil {
					var e2 ntske.EncryptedServerCookie
					if err = e2.Decode(ec.Encode()); err == nil {
						back, err = e2.Decrypt(k)
					}
				}
				r.Evals++
				if err != nil || back.Algo != sc.Algo || !bytes.Equal(back.S2C, sc.S2C) || !bytes.Equal(back.C2S, sc.C2S) {
					r.Fail("cookie", "sealed-cookie-roundtrip", fmt.Sprintf("%+v (%v)", back, err), in{Kind: "sealed"})
				}
			}
		}
	}
}

// chunkReader hands out the stream in the given segment sizes (then whole).
type chunkReader struct {
	b    []byte
	cuts []int // absolute cut positions, ascending
	pos  int
}

func (c *chunkReader) Read(p []byte) (int, error) {
	if c.pos >= len(c.b) {
		return 0, io.EOF
	}
	end := len(c.b)
	for _, k := range c.cuts {
		if k > c.pos {
			end = k
			break
		}
	}
	n := copy(p, c.b[c.pos:end])
	c.pos += n
	return n, nil
}

func readSeg(stream []byte, cuts []int) (ntske.Data, error) {
	var d ntske.Data
	err := ntske.ReadData(context.Background(), world.Discard, bufio.NewReader(&chunkReader{b: stream, cuts: cuts}), &d)
	return d, err
}

func ke(r *mc.Run) {
	// the server's full message
	var msg ntske.ExchangeMsg
	msg.AddRecord(ntske.NextProto{NextProto: ntske.NTPv4})
	msg.AddRecord(ntske.Algorithm{Algo: []uint16{ntske.AES_SIV_CMAC_256}})
	msg.AddRecord(ntske.Server{Addr: []byte("192.0.2.55")})
	msg.AddRecord(ntske.Port{Port: 4123})
	var want [][]byte
	for i := 0; i < 8; i++ {
		c := fill(104, byte(i))
		want = append(want, c)
		msg.AddRecord(ntske.Cookie{Cookie: c})
	}
	msg.AddRecord(ntske.End{})
	buf, err := msg.Pack()
	if err != nil {
		r.T.Fatal(err)
	}
	// an unknown non-critical record in the middle
	full := buf.Bytes()
	unk := []byte{0x40, 0x01, 0x00, 0x03, 9, 9, 9}
	full = append(append(bytes.Clone(full[:12]), unk...), full[12:]...)
	ref, err := readSeg(full, nil)
	r.Evals++
	expect := func(d ntske.Data) string {
		if d.Algo != ntske.AES_SIV_CMAC_256 || d.Server != "192.0.2.55" || d.Port != 4123 || len(d.Cookie) != 8 {
			return fmt.Sprintf("algo=%d server=%q port=%d cookies=%d", d.Algo, d.Server, d.Port, len(d.Cookie))
		}
		for i := range want {
			if !bytes.Equal(d.Cookie[i], want[i]) {
				return fmt.Sprintf("cookie %d = %x", i, d.Cookie[i])
			}
		}
		return ""
	}
	if err != nil || expect(ref) != "" {
		r.Fail("ntske", "ntske-record-roundtrip", fmt.Sprintf("unsegmented decode: %v %s", err, expect(ref)), in{Kind: "ke"})
	}
	n := len(full)
	try := func(cuts []int) {
		d, err := readSeg(full, cuts)
		r.Evals++
		r.Distinct++
		if err != nil || expect(d) != "" {
			r.Fail("ntske", "ntske-segmentation-dependent", fmt.Sprintf("stream of %d bytes cut at %v: err=%v %s", n, cuts, err, expect(d)), in{Kind: "kecut", P: cuts})
		}
	}
	for i := 1; i < n; i++ {
		try([]int{i})
	}
	all := make([]int, 0, n)
	for i := 1; i < n; i++ {
		all = append(all, i)
	}
	try(all) // one byte per read
	stride := 7
	if r.Thorough() {
		stride = 1
	}
	for i := 1; i < n; i += stride {
		for j := i + 1; j < n; j += stride {
			try([]int{i, j})
		}
	}
	// the project's writers take lists of algorithms and protocols (what a client
	// offers): a message written with a list decodes to the same data as with the
	// single entries, whatever the position of AES-SIV-CMAC-256 in the list
	for _, algos := range [][]uint16{{15, 16}, {16, 15}, {17, 15, 16}, {15, 15}} {
		var lm ntske.ExchangeMsg
		lm.AddRecord(ntske.NextProto{NextProto: ntske.NTPv4})
		lm.AddRecord(ntske.Algorithm{Algo: algos})
		lm.AddRecord(ntske.Server{Addr: []byte("192.0.2.55")})
		lm.AddRecord(ntske.Port{Port: 4123})
		for _, c := range want {
			lm.AddRecord(ntske.Cookie{Cookie: c})
		}
		lm.AddRecord(ntske.End{})
		lb, err := lm.Pack()
		if err != nil {
			r.T.Fatal(err)
		}
		d, err := readSeg(lb.Bytes(), nil)
		r.Evals++
		r.Distinct++
		if err != nil || expect(d) != "" {
			r.Fail("ntske", "ntske-record-roundtrip", fmt.Sprintf("message written with the algorithm list %v: err=%v %s", algos, err, expect(d)), in{Kind: "kelist"})
		}
	}
	// a short message: every segmentation
	var small ntske.ExchangeMsg
	small.AddRecord(ntske.NextProto{NextProto: ntske.NTPv4})
	small.AddRecord(ntske.Cookie{Cookie: []byte{1, 2, 3, 4, 5, 6}})
	small.AddRecord(ntske.End{})
	sb, _ := small.Pack()
	s := sb.Bytes()
	for mask := 0; mask < 1<<(len(s)-1); mask++ {
		var cuts []int
		for i := 1; i < len(s); i++ {
			if mask&(1<<(i-1)) != 0 {
				cuts = append(cuts, i)
			}
		}
		d, err := readSeg(s, cuts)
		r.Evals++
		if err != nil || len(d.Cookie) != 1 || !bytes.Equal(d.Cookie[0], []byte{1, 2, 3, 4, 5, 6}) {
			r.Fail("ntske", "ntske-segmentation-dependent", fmt.Sprintf("short stream %x cut at %v: err=%v cookies=%x", s, cuts, err, d.Cookie), in{Kind: "kecutsmall", P: cuts})
		}
	}
	r.Distinct += int64(1) << (len(s) - 1)
}

func TestCheck(t *testing.T) {
	mc.Main(t, "C14", func(r *mc.Run) {
		if !r.Replaying() && !r.Mine() {
			// one process does everything (seconds)
			r.Evals, r.Distinct = 0, 0
			return
		}
		byteLevel(r, "ntp", 48, true, ntpRT)
		byteLevel(r, "csptp-message", 44, true, csptpMsgRT)
		byteLevel(r, "csptp-request-tlv", 54, false, csptpReqRT)
		byteLevel(r, "csptp-response-tlv", 54, false, csptpRespRT)
		ntsShapes(r)
		cookies(r)
		ke(r)
		if r.Replaying() {
			for _, v := range r.Rep.Violations {
				fmt.Printf("REPLAY-VERDICT: FAIL signature=%q\n%s\n", v.Signature, v.Message)
				t.Fail()
			}
			if len(r.Rep.Violations) == 0 {
				fmt.Println("REPLAY-VERDICT: PASS")
			}
			return
		}
		r.Sample(in{Kind: "nts", P: []int{33, 100, 2, 6}})
		r.Sample(in{Kind: "kecut", P: []int{100, 101}})
		r.Extra["rule"] = "NTP header and CSPTP message: every byte position (and every adjacent byte pair, i.e. every aligned and unaligned 16-bit field) x all values on 3 base patterns, bytes->value->bytes->value; CSPTP TLVs likewise per byte at both declared lengths; NTS: all shapes uid in {32,33,35,36,64} x cookie length in {0..5,8,100,124,128} x 1..8 cookies x 0..7 placeholders that fit 1024 bytes, and responses with 1..8 encrypted cookies; cookies over key/nonce/ciphertext length sets; NTS-KE: the server's full message under every single cut, 1-byte reads, pairs of cuts (stride 7 quick, all thorough) and all 2^17 segmentations of an 18-byte message"
	})
}
