// C18: time-unit conversions for the kernel and CSPTP interfaces are exact
// and normalised (DESIGN.md C18). Exhaustive over all 10^9 residues, the
// whole kernel scaled-ppm range, 16-bit slices of the 48-bit seconds field and
// boundary grids for the formulas; oracles in math/big.
package c18

import (
	"fmt"
	"math"
	"math/big"
	"testing"
	"time"

	"example.com/scion-time/base/unixutil"
	"example.com/scion-time/driver/clocks"
	"example.com/scion-time/net/csptp"

	"verif.local/mc"
)

type in struct {
	Kind string  `json:"kind"`
	A    int64   `json:"a,omitempty"`
	B    int64   `json:"b,omitempty"`
	V    []int64 `json:"v,omitempty"`
}

var e9 = big.NewInt(1_000_000_000)

func timevalBig(r *mc.Run, n int64) {
	tv := unixutil.TimevalFromNsec(n)
	r.Evals++
	s := new(big.Int).Mul(big.NewInt(tv.Sec), e9)
	s.Add(s, big.NewInt(tv.Usec))
	if tv.Usec < 0 || tv.Usec >= 1_000_000_000 || s.Cmp(big.NewInt(n)) != 0 {
		r.Fail("timeval", "timeval-not-normalised", fmt.Sprintf("TimevalFromNsec(%d) = {Sec:%d Usec:%d}", n, tv.Sec, tv.Usec), in{Kind: "timeval", A: n})
	}
}

func recovered(f func()) (p any) {
	defer func() { p = recover() }()
	f()
	return nil
}

func TestCheck(t *testing.T) {
	mc.Main(t, "C18", func(r *mc.Run) {
		if r.Replaying() {
			var i in
			if r.ReplayInput("timeval", &i) {
				timevalBig(r, i.A)
			}
			// other scenarios are re-run completely (they take seconds)
			if !r.ReplayInput("timeval", &i) {
				rest(r)
			}
			for _, v := range r.Rep.Violations {
				fmt.Printf("REPLAY-VERDICT: FAIL signature=%q\n%s\n", v.Signature, v.Message)
				t.Fail()
			}
			if len(r.Rep.Violations) == 0 {
				fmt.Println("REPLAY-VERDICT: PASS")
			}
			return
		}
		// 1. TimevalFromNsec: all 10^9 residues x quotients
		quot := []int64{0, -1, 1, -2}
		if r.Thorough() {
			quot = append(quot, 2, 9223372035, -9223372035, 4294967296, -4294967297)
		}
		const chunk = 2_000_000
		for _, q := range quot {
			for c := int64(0); c < 1_000_000_000; c += chunk {
				if !r.Mine() {
					continue
				}
				for res := c; res < c+chunk; res++ {
					n := q*1_000_000_000 + res
					tv := unixutil.TimevalFromNsec(n)
					// wrap-free here: |q| < 2^34
					if tv.Usec < 0 || tv.Usec >= 1_000_000_000 || tv.Sec*1_000_000_000+tv.Usec != n {
						r.Fail("timeval", "timeval-not-normalised", fmt.Sprintf("TimevalFromNsec(%d) = {Sec:%d Usec:%d}", n, tv.Sec, tv.Usec), in{Kind: "timeval", A: n})
					}
				}
				r.Evals += chunk
				r.Distinct += chunk
			}
		}
		if r.Mine() {
			for d := int64(0); d <= 1<<20; d++ {
				timevalBig(r, d)
				timevalBig(r, -d)
				timevalBig(r, math.MinInt64+d)
				timevalBig(r, math.MaxInt64-d)
			}
			r.Distinct += 4 << 20
		}
		// 2. scaled ppm: the whole kernel range
		const lim = 32_768_000
		for c := int64(-lim); c <= lim; c += 1 << 20 {
			if !r.Mine() {
				continue
			}
			for x := c; x < c+1<<20 && x <= lim; x++ {
				y := unixutil.ScaledPPMFromFreq(unixutil.FreqFromScaledPPM(x))
				r.Evals++
				if y-x > 1 || x-y > 1 {
					r.Fail("ppm", "scaled-ppm-roundtrip", fmt.Sprintf("ScaledPPMFromFreq(FreqFromScaledPPM(%d)) = %d", x, y), in{Kind: "ppm", A: x})
				}
			}
			r.Distinct += 1 << 20
		}
		if r.Mine() {
			rest(r)
		}
		r.Sample(in{Kind: "timeval", A: -1})
		r.Sample(in{Kind: "ppm", A: -32768000})
		r.Extra["rule"] = "TimevalFromNsec on all 10^9 residues x 4 (9) quotients and the 2^20 neighbourhoods of 0/MinInt64/MaxInt64; scaled-ppm round trip on all 65 536 001 kernel values; freq round trip on a boundary set; Drift on an interval x drift grid; CSPTP timestamps on all 2^16 values of each 16-bit slice of the seconds x 3 nanosecond values and both out-of-range sides; correction fields on walking bits and all 2^16 low words; offset/delay formulas on a boundary grid of (theta, d, corr1, corr3, utc)"
	})
}

func rest(r *mc.Run) {
	// freq -> ppm -> freq within one unit in the last place
	for _, f := range []float64{0, 1e-9, -1e-9, 1e-6, -1e-6, 500e-6, -500e-6, 1.52587890625e-11, 3.3e-7, -4.99999e-4} {
		g := unixutil.FreqFromScaledPPM(unixutil.ScaledPPMFromFreq(f))
		r.Evals++
		if math.Abs(g-f) > 1.0/(65536.0*1e6)+1e-18 {
			r.Fail("ppm", "freq-roundtrip", fmt.Sprintf("freq %g -> %g", f, g), in{Kind: "freq"})
		}
	}
	// Drift proportional to the interval
	for _, drift := range []time.Duration{1, 50 * time.Microsecond, 500 * time.Microsecond, time.Millisecond} {
		clk := clocks.NewSystemClock(nil, drift)
		for _, iv := range []time.Duration{1, time.Microsecond, time.Millisecond, time.Second, 64 * time.Second, time.Hour, 1000 * time.Hour} {
			got := clk.Drift(iv)
			want := new(big.Int).Mul(big.NewInt(int64(iv)), big.NewInt(int64(drift)))
			want.Quo(want, e9)
			diff := new(big.Int).Sub(big.NewInt(int64(got)), want)
			tol := new(big.Int).Quo(want, big.NewInt(1_000_000_000_000))
			tol.Add(tol, big.NewInt(1))
			r.Evals++
			r.Distinct++
			if diff.CmpAbs(tol) > 0 {
				r.Fail("drift", "drift-not-proportional", fmt.Sprintf("Drift(%v) with drift %v/s = %v, want %v", iv, drift, got, want), in{Kind: "drift", A: int64(iv), B: int64(drift)})
			}
			if k := clk.Drift(3 * iv); iv < 100*time.Hour && absd(k-3*got) > 3 {
				r.Fail("drift", "drift-not-proportional", fmt.Sprintf("Drift(3*%v)=%v, 3*Drift=%v", iv, k, 3*got), in{Kind: "drift", A: int64(iv), B: int64(drift)})
			}
		}
	}
	if d := clocks.NewSystemClock(nil, clocks.UnknownDrift).Drift(time.Second); d != math.MaxInt64 {
		r.Fail("drift", "unknown-drift-sentinel", fmt.Sprintf("unknown drift gives %v", d), in{Kind: "drift"})
	}
	// CSPTP timestamps
	for slice := 0; slice < 3; slice++ {
		for _, fill := range []uint64{0, 0xffff, 0x5a5a} {
			for v := uint64(0); v < 1<<16; v++ {
				var parts [3]uint64
				for i := range parts {
					parts[i] = fill
				}
				parts[slice] = v
				s := parts[0]<<32 | parts[1]<<16 | parts[2]
				for _, ns := range []int64{0, 1, 999_999_999} {
					tm := time.Unix(int64(s), ns).UTC()
					ts := csptp.TimestampFromTime(tm)
					back := csptp.TimeFromTimestamp(ts)
					r.Evals++
					if !back.Equal(tm) || ts.Nanoseconds != uint32(ns) {
						r.Fail("csptp-ts", "csptp-timestamp-roundtrip", fmt.Sprintf("%d.%09d -> %+v -> %v", s, ns, ts, back), in{Kind: "csptp-ts", A: int64(s), B: ns})
					}
				}
				r.Distinct++
			}
		}
	}
	if recovered(func() { csptp.TimestampFromTime(time.Unix(-1, 999_999_999)) }) == nil {
		r.Fail("csptp-ts", "csptp-timestamp-range", "time before 1970 accepted", in{Kind: "csptp-ts", A: -1})
	}
	if recovered(func() { csptp.TimestampFromTime(time.Unix(1<<48, 0)) }) == nil {
		r.Fail("csptp-ts", "csptp-timestamp-range", "time after 2^48-1 s accepted", in{Kind: "csptp-ts", A: 1 << 48})
	}
	if p := recovered(func() { csptp.TimestampFromTime(time.Unix(1<<48-1, 999_999_999)) }); p != nil {
		r.Fail("csptp-ts", "csptp-timestamp-range", fmt.Sprintf("largest representable time rejected: %v", p), in{Kind: "csptp-ts", A: 1<<48 - 1})
	}
	// correction fields: floor(i / 2^16)
	chk := func(i int64) {
		got := int64(csptp.DurationFromTimeInterval(i))
		want := new(big.Int).Div(big.NewInt(i), big.NewInt(65536)) // Euclidean == floor for positive divisor
		r.Evals++
		if got != want.Int64() {
			r.Fail("csptp-corr", "correction-field-conversion", fmt.Sprintf("DurationFromTimeInterval(%d) = %d want %d", i, got, want), in{Kind: "csptp-corr", A: i})
		}
	}
	for b := 0; b < 64; b++ {
		chk(int64(1) << b)
		chk(-(int64(1) << b))
		chk(int64(1)<<b - 1)
	}
	for _, hi := range []int64{0, 1, -1, 12345, -12345, math.MaxInt64 >> 16, math.MinInt64 >> 16} {
		for lo := int64(0); lo < 1<<16; lo++ {
			chk(hi<<16 | lo)
		}
		r.Distinct += 1 << 16
	}
	// offset / delay formulas recover truth
	vals := []time.Duration{0, 1, -1, time.Microsecond, -time.Millisecond, time.Second, -37 * time.Second, 1000 * time.Hour, -1000 * time.Hour}
	dels := []time.Duration{0, 1, 250 * time.Microsecond, time.Second}
	corr := []time.Duration{0, 1, 800, -3}
	base := time.Date(2025, 3, 1, 0, 0, 0, 123456789, time.UTC)
	for _, th := range vals {
		for _, d := range dels {
			for _, c1 := range corr {
				for _, c3 := range corr {
					for _, utc := range []time.Duration{0, th, 37 * time.Second} {
						t0 := base
						t1 := t0.Add(th + d + c1)
						t2 := t1.Add(20 * time.Microsecond)
						t3 := t2.Add(-th + d + c3)
						r.Evals++
						r.Distinct++
						if got := csptp.ClockOffset(t0, t1, t2, t3, c1, c3); got != th {
							r.Fail("csptp-formula", "csptp-offset-formula", fmt.Sprintf("theta=%v d=%v c1=%v c3=%v: ClockOffset=%v", th, d, c1, c3, got), in{Kind: "formula", V: []int64{int64(th), int64(d), int64(c1), int64(c3)}})
						}
						if got := csptp.MeanPathDelay(t0, t1, t2, t3, c1, c3); got != d {
							r.Fail("csptp-formula", "csptp-delay-formula", fmt.Sprintf("theta=%v d=%v c1=%v c3=%v: MeanPathDelay=%v", th, d, c1, c3, got), in{Kind: "formula", V: []int64{int64(th), int64(d), int64(c1), int64(c3)}})
						}
						if got := csptp.C2SDelay(t0, t1, c1, utc); got != th+d-utc {
							r.Fail("csptp-formula", "csptp-c2s-formula", fmt.Sprintf("theta=%v d=%v utc=%v: C2SDelay=%v", th, d, utc, got), in{Kind: "formula"})
						}
						if got := csptp.S2CDelay(t2, t3, c3, utc); got != d-th+utc {
							r.Fail("csptp-formula", "csptp-s2c-formula", fmt.Sprintf("theta=%v d=%v utc=%v: S2CDelay=%v", th, d, utc, got), in{Kind: "formula"})
						}
					}
				}
			}
		}
	}
}

func absd(d time.Duration) time.Duration {
	if d < 0 {
		return -d
	}
	return d
}
