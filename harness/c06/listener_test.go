package c06

import (
	"context"
	"fmt"
	"net/netip"
	"time"

	"example.com/scion-time/core/server"
	"example.com/scion-time/net/ntp"

	"verif.local/mc"
	"verif.local/shim/vnet"
	"verif.local/world"
)

// listenerProgram drives short request histories through the real IP
// listener: what the error queue holds after each reply (the packet's own
// transmit timestamp, nothing, or the entry of another packet) decides
// whether the exchange stays on record and with which transmit time.
func listenerProgram(r *mc.Run, steps int) func(x *mc.X) {
	return func(x *mc.X) {
		world.Run(r.T, x, func(w *world.World) {
			server.VerifResetTSS()
			srv := netip.MustParseAddrPort("10.0.0.1:123")
			lc := vnet.ListenConfig{}
			pc, _ := lc.ListenPacket(context.Background(), "udp", srv.String())
			sock := pc.(*vnet.UDPConn)
			mode := 0
			var sends uint32
			var lastStamp time.Time
			var late *vnet.TxStamp // a transmit timestamp the kernel has not delivered yet
			desync := false        // the listener's expected id may lag the kernel's counter
			w.Net.OnSend = func(c *vnet.UDPConn, d *vnet.Datagram) *vnet.TxStamp {
				defer func() { sends++ }()
				lastStamp = time.Time{}
				if late != nil {
					// the delayed entry of the previous packet reaches the queue before this packet's own
					c.QueueErr(*late)
					late = nil
				}
				switch mode {
				case 1:
					return &vnet.TxStamp{None: true}
				case 2:
					// delivered late: the entry reaches the queue just before the next packet's own
					late = &vnet.TxStamp{TS: w.Clock.Peek().Add(3 * time.Microsecond), ID: sends}
					return &vnet.TxStamp{None: true}
				}
				lastStamp = w.Clock.Peek().Add(3 * time.Microsecond)
				return &vnet.TxStamp{TS: lastStamp, ID: sends}
			}
			w.Go("ipserver", func() { server.VerifRunIPServer(context.Background(), w.Log, sock, "", 0, nil) })
			w.Settle()
			clients := []netip.AddrPort{netip.MustParseAddrPort("10.1.0.1:5000"), netip.MustParseAddrPort("10.1.0.2:5000")}
			type rec struct {
				rx, tx ntp.Time64
				kept   bool
			}
			newest := map[int]*rec{}
			for s := 0; s < steps; s++ {
				ci := x.Choose(2, "client")
				kind := x.Choose(2, "kind") // 0: interleaved on the newest exchange handed to this client (if any), 1: basic
				mode = x.Choose(3, "errqueue")
				stale := late != nil || sock.ErrQueueLen() > 0 // an older packet's entry will be read first
				time.Sleep(time.Second)
				var req ntp.Packet
				req.SetVersion(4)
				req.SetMode(ntp.ModeClient)
				req.TransmitTime = ntp.Time64FromTime(w.Clock.Peek())
				prev := newest[ci]
				if kind == 0 && prev != nil {
					req.OriginTime = prev.rx
					req.ReceiveTime = ntp.Time64{Seconds: 9, Fraction: uint32(s + 1)}
					req.TransmitTime = ntp.Time64{Seconds: 8, Fraction: uint32(s + 1)}
				}
				var b []byte
				ntp.EncodePacket(&b, &req)
				before := w.Net.NumSent()
				// the kernel stamped the packet a microsecond before the listener reads its clock
				sock.Deliver(&vnet.Datagram{From: clients[ci], To: srv, Data: b, RxTime: w.Clock.Peek().Add(-time.Microsecond)})
				w.Settle()
				w.CheckPanics()
				x.Transitions++
				out := w.Net.SentSince(before)
				if len(out) != 1 {
					x.Failf("listener-no-reply", "step %d: %d replies", s, len(out))
				}
				var resp ntp.Packet
				ntp.DecodePacket(&resp, out[0].Data)
				x.Logf("step %d: client %d kind %d errqueue %d -> origin=%v tx=%v", s, ci, kind, mode, resp.OriginTime, resp.TransmitTime)
				// the reply: interleaved exactly when the named exchange is still on record
				if kind == 0 && prev != nil {
					isIL := resp.OriginTime == req.ReceiveTime
					if isIL != prev.kept {
						x.Failf("interleaved-reply-vs-record", "step %d: exchange rx=%v kept=%v, interleaved reply=%v", s, prev.rx, prev.kept, isIL)
					}
					if isIL && resp.TransmitTime != prev.tx {
						x.Failf("interleaved-reply-wrong-transmit", "step %d: interleaved reply carries %v, the kernel transmit timestamp read for that exchange was %v", s, resp.TransmitTime, prev.tx)
					}
				}
				// the record after the transmit-timestamp update
				sn := server.VerifSnapshotTSS()
				var pair *server.VerifTSSPair
				for _, it := range sn.Items {
					if it.Key == clients[ci].Addr().String() {
						for i := range it.Pairs {
							if it.Pairs[i].Rx == resp.ReceiveTime {
								pair = &it.Pairs[i]
							}
						}
					}
				}
				cur := &rec{rx: resp.ReceiveTime}
				switch {
				case mode == 0 && pair == nil:
					// dropping is always safe; it is expected only while the listener's
					// expected identifier lags behind the kernel's counter
					if !desync && !stale {
						x.Failf("read-transmit-dropped", "step %d: the kernel transmit timestamp was readable, nothing was lost before, but the exchange is not on record", s)
					}
				case mode == 0:
					if pair.Tx != ntp.Time64FromTime(lastStamp) {
						if stale {
							x.Failf("late-transmit-timestamp-attributed-to-next-packet@runIPServer", "step %d: the error queue held the delayed transmit timestamp of the previous packet followed by this packet's own; recorded tx %v is not this packet's kernel transmit timestamp %v", s, pair.Tx, ntp.Time64FromTime(lastStamp))
						}
						x.Failf("recorded-transmit-not-kernel-time", "step %d: recorded tx %v, kernel transmit timestamp %v", s, pair.Tx, ntp.Time64FromTime(lastStamp))
					}
					cur.kept, cur.tx = true, pair.Tx
				default:
					if pair != nil {
						if stale {
							x.Failf("late-transmit-timestamp-attributed-to-next-packet@runIPServer", "step %d: no transmit timestamp of this packet was delivered, but the delayed one of the previous packet was recorded for it (tx %v)", s, pair.Tx)
						}
						x.Failf("unread-transmit-kept", "step %d: no transmit timestamp of this packet could be read (error queue mode %d) but the exchange stays on record with tx %v", s, mode, pair.Tx)
					}
				}
				desync = mode != 0 || stale
				if kind == 0 && prev != nil && resp.OriginTime == req.ReceiveTime {
					// an interleaved exchange replaces the record it named
					prev.kept = false
				}
				newest[ci] = cur
				x.Observe(mode, pair != nil)
			}
		})
	}
}

func listenerLayer(r *mc.Run) {
	r.Explore(mc.Config{Name: "listener/ip", Bound: -1}, listenerProgram(r, mc.Pick(r, 4, 5)))
	r.Extra["rule_listener"] = fmt.Sprintf("real runIPServer over the in-memory network: all histories of %d requests over 2 clients x {interleaved on the newest exchange, basic} x error queue {own transmit timestamp, none, own timestamp delivered late (queued just before the next reply's own entry)}; the store snapshot after every request must hold the kernel transmit time or not hold the exchange", mc.Pick(r, 4, 5))
}
