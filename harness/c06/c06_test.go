// C06: server replies are correct in basic and interleaved mode for every
// history (DESIGN.md C06). handleRequest / updateTXTimestamp are driven
// directly through the verif hooks; the step relation is checked against the
// store's own pre-state on every transition.
package c06

import (
	"flag"
	"fmt"
	"testing"

	"verif.local/harness/tsskit"
	"verif.local/mc"
)

var mode = flag.String("vmode", "handler", "handler|listener")

func TestCheck(t *testing.T) {
	mc.Main(t, "C06", func(r *mc.Run) {
		if *mode == "listener" {
			listenerLayer(r)
			return
		}
		type scen struct {
			name  string
			p     tsskit.Params
			bound int
			prune bool
		}
		var ss []scen
		cl2 := []string{"A", "B"}
		cl3 := []string{"A", "B", "C"}
		// layer 1: every history of 3 (thorough: 4) steps over the full alphabet
		ss = append(ss, scen{"full/steps3", tsskit.Params{Clients: cl2, Steps: mc.Pick(r, 3, 4)}, -1, false})
		// layer 2: deviation-bounded long histories, from the empty store and
		// from stores where client A already holds 7, 8 and 9 exchanges
		for _, pre := range []int{0, 7, 8, 9} {
			ss = append(ss, scen{fmt.Sprintf("dev/prefill%d", pre), tsskit.Params{Clients: mc.Pick(r, cl2, cl3), Steps: mc.Pick(r, 7, 9), Prefill: pre}, mc.Pick(r, 4, 5), false})
		}
		for _, s := range ss {
			r.Explore(mc.Config{Name: s.name, Bound: s.bound, Prune: s.prune}, tsskit.Program(s.p, nil))
		}
		r.Extra["rule"] = "histories of H(client, kind in 6, receive time in 6, clock reading in 4) and U(in-flight exchange, reported transmit time in 5: kernel time, none, 1 ns before the receive time, exactly the receive time, a sibling's time): all histories of 3 steps (thorough 4); all histories of 7 steps (9) within 4 (5) deviations from normal operation, from stores prefilled with 0/7/8/9 exchanges"
	})
}
