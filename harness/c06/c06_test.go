// C06: server replies are correct in basic and interleaved mode for every
// history (DESIGN.md C06). handleRequest / updateTXTimestamp are driven
// directly through the verif hooks; the step relation is checked against the
// store's own pre-state on every transition.
package c06

import (
	"flag"
	"fmt"
	"testing"

	"example.com/scion-time/core/server"

	"verif.local/harness/tsskit"
	"verif.local/mc"
)

var mode = flag.String("vmode", "handler", "handler|listener|cap3")

func TestCheck(t *testing.T) {
	mc.Main(t, "C06", func(r *mc.Run) {
		if *mode == "listener" {
			listenerLayer(r)
			return
		}
		if *mode == "cap3" {
			capLayer(r)
			return
		}
		type scen struct {
			name  string
			p     tsskit.Params
			bound int
			prune bool
		}
		var ss []scen
		cl2 := []string{"A", "B"}
		cl3 := []string{"A", "B", "C"}
		// layer 1: every history of 3 (thorough: 4) steps over the full alphabet
		ss = append(ss, scen{"full/steps3", tsskit.Params{Clients: cl2, Steps: mc.Pick(r, 3, 4)}, -1, false})
		// layer 2: deviation-bounded long histories, from the empty store and
		// from stores where client A already holds 7, 8 and 9 exchanges
		for _, pre := range []int{0, 7, 8, 9} {
			ss = append(ss, scen{fmt.Sprintf("dev/prefill%d", pre), tsskit.Params{Clients: mc.Pick(r, cl2, cl3), Steps: mc.Pick(r, 7, 9), Prefill: pre}, mc.Pick(r, 4, 5), false})
		}
		for _, s := range ss {
			r.Explore(mc.Config{Name: s.name, Bound: s.bound, Prune: s.prune}, tsskit.Program(s.p, nil))
		}
		r.Extra["rule"] = "histories of H(client, kind in 6, receive time in 6, clock reading in 4) and U(in-flight exchange, reported transmit time in 5: kernel time, none, 1 ns before the receive time, exactly the receive time, a sibling's time): all histories of 3 steps (thorough 4); all histories of 7 steps (9) within 4 (5) deviations from normal operation, from stores prefilled with 0/7/8/9 exchanges"
	})
}

// capLayer: the reply rules on a store that evicts (tssCap re-valued to 3 in
// the compiled copy, five client identities): a client admitted in place of
// an evicted one starts without history, and no reply ever serves a transmit
// timestamp of an exchange the requesting client did not take part in.
func capLayer(r *mc.Run) {
	if server.VerifTSSCap > 8 {
		r.Fail("cap3", "harness-capacity-not-revalued", fmt.Sprintf("tssCap is %d in the compiled copy; the cap3 variant needs the tsscap overlay", server.VerifTSSCap), "")
		return
	}
	cl := []string{"A", "B", "C", "D", "E"}
	r.Extra["small_cap"] = server.VerifTSSCap
	r.Explore(mc.Config{Name: "cap3/replies", Bound: mc.Pick(r, 2, 3), Prune: true},
		tsskit.Program(tsskit.Params{Clients: cl, Steps: mc.Pick(r, 6, 7), FreeClientRx: true, RxKinds: 3, Prune: true}, nil))
	r.Explore(mc.Config{Name: "cap3/dev", Bound: mc.Pick(r, 4, 5)},
		tsskit.Program(tsskit.Params{Clients: cl, Steps: mc.Pick(r, 7, 8)}, nil))
	r.Extra["rule"] = "store capacity 3, five client identities: all histories of 6 (7) steps with free client and receive-time order choices and <=2 (3) other deviations (kinds incl. origin = a receive timestamp handed to another, possibly evicted, client), canonical-state pruned, and the full alphabet within 4 (5) deviations over 7 (8) steps; replies judged by the step relation and by a history-based record of which receive timestamps each client was handed"
}
