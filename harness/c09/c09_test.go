// C09: the NTP listeners answer exactly the valid client requests, once, to
// the sender (DESIGN.md C09). The real receive loop runs over the in-memory
// network; the datagram space is enumerated exhaustively.
package c09

import (
	"bytes"
	"context"
	"fmt"
	"net/netip"
	"testing"

	"example.com/scion-time/core/server"
	"example.com/scion-time/net/ntp"
	"example.com/scion-time/net/nts"

	"verif.local/kit"
	"verif.local/mc"
	"verif.local/shim/vnet"
	"verif.local/world"
)

var lengths = []int{0, 1, 47, 48, 49, 75, 76, 100, 1024, 2048}

// allFlips (thorough): every byte of every NTS request around every valid first byte is flipped.
var allFlips = false

type dgram struct {
	First   int    `json:"first_byte"`
	Fill    string `json:"fill"`
	Len     int    `json:"len"`
	Trailer string `json:"trailer"`
	Socket  int    `json:"socket"`
	Flip    int    `json:"flip,omitempty"`
}

func header(first byte, fill string) []byte {
	h := make([]byte, 48)
	switch fill {
	case "zeros":
	case "ff":
		for i := range h {
			h[i] = 0xff
		}
	case "a5":
		for i := range h {
			h[i] = 0xa5 ^ byte(i*7)
		}
	case "client":
		copy(h, kit.ClientHeader(world.Epoch))
		h[2] = 6
	}
	h[0] = first
	return h
}

// validHeader is the statement's predicate on the first byte.
func validHeader(b byte) bool {
	li, vn, mode := b>>6, (b>>3)&7, b&7
	if li != 0 && li != 3 {
		return false
	}
	return vn >= 2 && vn <= 4 && mode == 3 || vn == 1 && mode == 0
}

func TestCheck(t *testing.T) {
	mc.Main(t, "C09", func(r *mc.Run) {
		if !r.Replaying() {
			// every datagram length up to 100 (200) bytes, then the buffer-size neighbourhood
			lengths = lengths[:0]
			for l := 0; l <= mc.Pick(r, 100, 200); l++ {
				lengths = append(lengths, l)
			}
			lengths = append(lengths, 1023, 1024, 1025, 2047, 2048)
			allFlips = r.Thorough()
		}
		if !r.Replaying() {
			for _, v6 := range []string{"false", "true", "client-only", "server-only"} {
				for _, ps := range []kit.PathSpec{{Kind: "empty"}, {Kind: "scion", Segs: []int{2, 2}}, {Kind: "onehop"}} {
					if r.Mine() {
						runSCION(r, v6, ps)
					}
				}
			}
		}
		for _, nsock := range []int{1, 2} {
			if r.Replaying() {
				var in dgram
				if !r.ReplayInput(fmt.Sprintf("ip/%d", nsock), &in) {
					continue
				}
				runIP(r, nsock, &in)
				for _, v := range r.Rep.Violations {
					fmt.Printf("REPLAY-VERDICT: FAIL signature=%q\n%s\n", v.Signature, v.Message)
					t.Fail()
				}
				if len(r.Rep.Violations) == 0 {
					fmt.Println("REPLAY-VERDICT: PASS")
				}
				continue
			}
			if !r.Mine() {
				continue
			}
			runIP(r, nsock, nil)
		}
		r.Extra["rule"] = "SCION listener (IPv4/IPv4, IPv6/IPv6, IPv4/IPv6 and IPv6/IPv4 client/server hosts x empty / two-segment SCION / one-hop path): the same payload space inside valid SCION/UDP packets, replies parsed with the SCION library (last hop, reversed path, swapped addresses and ports); IP listener (1 and 2 SO_REUSEPORT sockets): all 256 first bytes x 4 header fills x every datagram length 0..100 (200) and 1023..1025, 2047, 2048 x trailers {zeros, 0xff, constant}; valid NTS requests (pool levels 8 and 5, alternating between two client associations of the same server) around every first byte, requests sealed without the project's encoder with unique identifiers of 0..31 bytes (no reply) and 32..200 bytes (one reply), and with single flipped bytes (every byte for three first bytes; thorough: for every valid first byte); every reply is fed back into the listener. Distinct = distinct datagrams; non-trivial = length >= 48 (reaches validation)"
	})
}

func runIP(r *mc.Run, nsock int, only *dgram) {
	scen := fmt.Sprintf("ip/%d", nsock)
	x := &mc.X{}
	world.Run(r.T, x, func(w *world.World) {
		server.VerifResetTSS()
		sess := kit.NewSession(7)
		// a second client association with the same server (its own session keys)
		sess2 := kit.NewSession(0x61)
		sess2.Provider = sess.Provider
		srvAddr := netip.MustParseAddrPort("10.0.0.1:123")
		socks := make([]*vnet.UDPConn, nsock)
		start := func(i int) {
			lc := vnet.ListenConfig{}
			pc, err := lc.ListenPacket(context.Background(), "udp", srvAddr.String())
			if err != nil {
				r.T.Fatal(err)
			}
			socks[i] = pc.(*vnet.UDPConn)
			world.FreshRegistry()
			w.Go(fmt.Sprintf("ipserver%d", i), func() {
				server.VerifRunIPServer(context.Background(), w.Log, socks[i], "", 0, sess.Provider)
			})
		}
		for i := range socks {
			start(i)
			w.Settle()
		}
		w.Settle()
		nclient := 0
		send := func(d dgram, payload []byte, expectReply bool, depth int) {
			r.Journal(fmt.Sprintf("%s %+v", scen, d))
			nclient++
			src := netip.AddrPortFrom(netip.AddrFrom4([4]byte{10, 1, byte(nclient >> 8), byte(nclient)}), uint16(1024+nclient%60000))
			before := w.Net.NumSent()
			s := socks[d.Socket%nsock]
			s.Deliver(&vnet.Datagram{From: src, To: srvAddr, Data: payload, RxTime: w.Clock.Now()})
			w.Settle()
			r.Evals++
			if len(payload) >= 48 {
				r.Distinct++
			}
			if len(w.Panics) > 0 {
				p := w.Panics[0]
				f := mc.PanicFailure(p.Value, p.Stack)
				r.Fail(scen, f.Signature, f.Message, d)
				w.Panics = nil
				// the listener goroutine is gone (in production: the process); restart it
				start(d.Socket % nsock)
				w.Settle()
				return
			}
			out := w.Net.SentSince(before)
			want := 0
			if expectReply {
				want = 1
			}
			if len(out) != want {
				sig := "reply-to-invalid-request"
				if expectReply {
					sig = "no-reply-to-valid-request"
				}
				if len(out) > 1 {
					sig = "more-than-one-reply"
				}
				r.Fail(scen, sig, fmt.Sprintf("datagram %+v (%d bytes, first byte %#02x): %d replies, want %d", d, len(payload), d.First, len(out), want), d)
				return
			}
			for _, o := range out {
				if o.To != src {
					r.Fail(scen, "reply-not-to-sender", fmt.Sprintf("reply to %v, sender was %v (%+v)", o.To, src, d), d)
				}
				if o.Sock != s {
					r.Fail(scen, "reply-from-other-socket", fmt.Sprintf("%+v", d), d)
				}
				var p ntp.Packet
				if err := ntp.DecodePacket(&p, o.Data); err != nil {
					r.Fail(scen, "reply-undecodable", fmt.Sprintf("%v (%+v)", err, d), d)
					continue
				}
				if p.Version() != 4 || p.Mode() != ntp.ModeServer || p.Stratum != 1 {
					r.Fail(scen, "reply-header-fields", fmt.Sprintf("reply VN=%d mode=%d stratum=%d (%+v)", p.Version(), p.Mode(), p.Stratum, d), d)
				}
				if validHeader(o.Data[0]) {
					r.Fail(scen, "reply-is-a-valid-request", fmt.Sprintf("reply first byte %#02x would itself be answered", o.Data[0]), d)
				}
				if depth == 0 {
					// reflection: a reply fed back must not be answered
					before2 := w.Net.NumSent()
					s.Deliver(&vnet.Datagram{From: src, To: srvAddr, Data: o.Data, RxTime: w.Clock.Now()})
					w.Settle()
					r.Evals++
					if n := w.Net.NumSent() - before2; n != 0 {
						r.Fail(scen, "reply-answered-when-fed-back", fmt.Sprintf("%d replies to a reflected reply (%+v)", n, d), d)
					}
				}
			}
		}
		build := func(d dgram) ([]byte, bool) {
			h := header(byte(d.First), d.Fill)
			switch d.Trailer {
			case "nts8", "nts5":
				pool := 8
				if d.Trailer == "nts5" {
					pool = 5
				}
				ss := sess
				if d.First%2 == 1 {
					ss = sess2 // requests of the two associations alternate on the sockets
				}
				pkt, _ := ss.Request(h, pool)
				ok := validHeader(byte(d.First))
				if d.Flip != 0 {
					pkt[d.Flip] ^= 0x01
					ok = false
				}
				return pkt, ok
			}
			var p []byte
			if d.Len <= 48 {
				p = h[:d.Len]
			} else {
				p = make([]byte, d.Len)
				copy(p, h)
				for i := 48; i < d.Len; i++ {
					switch d.Trailer {
					case "ff":
						p[i] = 0xff
					case "const":
						p[i] = byte(0x3c + i%5)
					}
				}
			}
			return p, d.Len == 48 && validHeader(byte(d.First))
		}
		if only != nil {
			p, ok := build(*only)
			send(*only, p, ok, 0)
			return
		}
		// requests that verify under the session key but whose unique identifier is
		// shorter than the 32 bytes a valid NTS request carries: no reply; 32 bytes and
		// more (as long as a reply with a cookie still fits): one reply
		for _, n := range []int{0, 1, 16, 28, 29, 30, 31, 32, 36, 64, 200} {
			ck := sess.Cookie()
			// (an identifier whose length is not a multiple of 4 goes out unpadded: the
			// field length is all that tells the value's length)
			req := kit.Seal(header(0x23, "client"), []kit.Ext{{Type: 0x0104, Body: bytes.Repeat([]byte{0x3d}, n), NoPad: true}, {Type: 0x0204, Body: ck}}, nil, sess.C2S, byte(n))
			send(dgram{First: 0x23, Fill: "client", Trailer: fmt.Sprintf("sealed-uid=%d", n), Len: len(req)}, req, n >= 32, 0)
		}
		sampled := 0
		for first := 0; first < 256; first++ {
			for _, fill := range []string{"zeros", "ff", "a5", "client"} {
				for li, l := range lengths {
					trailers := []string{"zeros"}
					if l > 48 {
						trailers = []string{"zeros", "ff", "const"}
					}
					for _, tr := range trailers {
						d := dgram{First: first, Fill: fill, Len: l, Trailer: tr, Socket: (first + li) % 2}
						p, ok := build(d)
						send(d, p, ok, 0)
						if sampled < 2 && ok {
							r.Sample(d)
							sampled++
						}
					}
				}
			}
			for _, tr := range []string{"nts8", "nts5"} {
				d := dgram{First: first, Fill: "client", Trailer: tr, Socket: first % 2}
				p, ok := build(d)
				d.Len = len(p)
				send(d, p, ok, 0)
				flips := []int{1, 47, 52, len(p) - 1}
				if first == 0x23 || first == 0xe3 || first == 0x08 || (allFlips && validHeader(byte(first))) {
					flips = flips[:0]
					for i := 1; i < len(p); i++ {
						// flipping the low bit of an extension length byte makes the
						// field unaligned by one; length zero (F1) cannot arise here
						flips = append(flips, i)
					}
				}
				for _, f := range flips {
					d := dgram{First: first, Fill: "client", Trailer: tr, Socket: first % 2, Flip: f}
					p, ok := build(d)
					d.Len = len(p)
					send(d, p, ok, 0)
				}
			}
		}
		_ = nts.MaxPacketLen
	})
}

// runSCION: the same payload space through the SCION listener.
func runSCION(r *mc.Run, v6 string, ps kit.PathSpec) {
	scen := fmt.Sprintf("scion/v6=%v/%s", v6, ps.Kind)
	x := &mc.X{}
	world.Run(r.T, x, func(w *world.World) {
		server.VerifResetTSS()
		sess := kit.NewSession(7)
		sess2 := kit.NewSession(0x61)
		sess2.Provider = sess.Provider
		sh, ch := kit.SrvHost, kit.CliHost
		// both hosts IPv4, both IPv6, or one of each (the address types in the reply
		// header must be exchanged along with the addresses)
		switch v6 {
		case "true":
			sh, ch = netip.MustParseAddr("fd00::1"), netip.MustParseAddr("fd00::2")
		case "client-only":
			ch = netip.MustParseAddr("fd00::2")
		case "server-only":
			sh = netip.MustParseAddr("fd00::1")
		}
		sw := kit.NewSCIONWorld(w, sh, false, sess.Provider)
		rev, rtype, _ := ps.Reversed()
		n := 0
		send := func(d dgram, payload []byte, expectReply bool) {
			r.Journal(fmt.Sprintf("%s %+v", scen, d))
			n++
			srcPort := uint16(20000 + n%30000)
			pk := &kit.Pkt{SrcIA: kit.CliIA, DstIA: kit.SrvIA, SrcHost: ch, DstHost: sh, Path: ps, L4: "udp", SrcPort: srcPort, DstPort: kit.SrvPort, Payload: payload}
			out := sw.Send(sw.Svc, kit.Router, pk.Bytes())
			r.Evals++
			if len(payload) >= 48 {
				r.Distinct++
			}
			if len(w.Panics) > 0 {
				p := w.Panics[0]
				w.Panics = nil
				f := mc.PanicFailure(p.Value, p.Stack)
				r.Fail(scen, f.Signature, f.Message, d)
				sw.Svc = sw.Start(kit.SrvPort)
				return
			}
			want := 0
			if expectReply {
				want = 1
			}
			if len(out) != want {
				sig := "reply-to-invalid-request"
				if expectReply {
					sig = "no-reply-to-valid-request"
				}
				if len(out) > 1 {
					sig = "more-than-one-reply"
				}
				r.Fail(scen, sig, fmt.Sprintf("SCION payload %+v (%d bytes, first byte %#02x): %d replies, want %d", d, len(payload), d.First, len(out), want), d)
				return
			}
			for _, o := range out {
				pr, err := kit.Parse(o.Data)
				if err != nil || pr.UDP == nil {
					r.Fail(scen, "reply-undecodable", fmt.Sprintf("%v (%+v)", err, d), d)
					continue
				}
				if o.To != kit.Router {
					r.Fail(scen, "reply-not-to-sender", fmt.Sprintf("reply written to %v, request came from %v", o.To, kit.Router), d)
				}
				sa, _ := netip.AddrFromSlice(pr.SCION.RawSrcAddr)
				da, _ := netip.AddrFromSlice(pr.SCION.RawDstAddr)
				if pr.SCION.SrcIA != kit.SrvIA || pr.SCION.DstIA != kit.CliIA || sa != sh || da != ch || pr.UDP.SrcPort != kit.SrvPort || pr.UDP.DstPort != srcPort {
					r.Fail(scen, "reply-not-to-sender", fmt.Sprintf("reply %v,%v:%d -> %v,%v:%d", pr.SCION.SrcIA, sa, pr.UDP.SrcPort, pr.SCION.DstIA, da, pr.UDP.DstPort), d)
				}
				if pr.SCION.PathType != rtype || string(pr.RawPath) != string(rev) {
					r.Fail(scen, "reply-path-not-reversed", fmt.Sprintf("reply path type %v %x, want %v %x", pr.SCION.PathType, pr.RawPath, rtype, rev), d)
				}
				var p ntp.Packet
				if err := ntp.DecodePacket(&p, pr.UDP.Payload); err != nil {
					r.Fail(scen, "reply-undecodable", fmt.Sprintf("%v (%+v)", err, d), d)
					continue
				}
				if p.Version() != 4 || p.Mode() != ntp.ModeServer || p.Stratum != 1 {
					r.Fail(scen, "reply-header-fields", fmt.Sprintf("reply VN=%d mode=%d stratum=%d", p.Version(), p.Mode(), p.Stratum), d)
				}
				// reflection: the reply's payload sent back as a request must not be answered
				pk2 := &kit.Pkt{SrcIA: kit.CliIA, DstIA: kit.SrvIA, SrcHost: ch, DstHost: sh, Path: ps, L4: "udp", SrcPort: srcPort, DstPort: kit.SrvPort, Payload: pr.UDP.Payload}
				r.Evals++
				if out2 := sw.Send(sw.Svc, kit.Router, pk2.Bytes()); len(out2) != 0 {
					r.Fail(scen, "reply-answered-when-fed-back", fmt.Sprintf("%d replies to a reflected reply", len(out2)), d)
				}
			}
		}
		for first := 0; first < 256; first++ {
			for _, fill := range []string{"zeros", "client"} {
				sl := []int{0, 1, 47, 48, 49, 50, 51, 52, 75, 76, 77, 100, 1024}
				if allFlips {
					sl = lengths
				}
				for _, l := range sl {
					trailers := []string{"zeros"}
					if l > 48 {
						trailers = []string{"zeros", "const"}
					}
					for _, tr := range trailers {
						d := dgram{First: first, Fill: fill, Len: l, Trailer: tr}
						h := header(byte(first), fill)
						var p []byte
						if l <= 48 {
							p = h[:l]
						} else {
							p = make([]byte, l)
							copy(p, h)
							if tr == "const" {
								for i := 48; i < l; i++ {
									p[i] = byte(0x3c + i%5)
								}
							}
						}
						send(d, p, l == 48 && validHeader(byte(first)))
					}
				}
			}
			for _, pool := range []int{8, 5} {
				h := header(byte(first), "client")
				ss := sess
				if first%2 == 1 {
					ss = sess2
				}
				pkt, _ := ss.Request(h, pool)
				d := dgram{First: first, Fill: "client", Trailer: fmt.Sprintf("nts%d", pool), Len: len(pkt)}
				send(d, pkt, validHeader(byte(first)))
				for _, f := range []int{1, 47, 52, len(pkt) - 1} {
					m := append([]byte{}, pkt...)
					m[f] ^= 0x01
					d.Flip = f
					send(d, m, false)
				}
			}
		}
	})
}
