// C09: the NTP listeners answer exactly the valid client requests, once, to
// the sender (DESIGN.md C09). The real receive loop runs over the in-memory
// network; the datagram space is enumerated exhaustively.
package c09

import (
	"context"
	"fmt"
	"net/netip"
	"testing"

	"example.com/scion-time/core/server"
	"example.com/scion-time/net/ntp"
	"example.com/scion-time/net/nts"

	"verif.local/kit"
	"verif.local/mc"
	"verif.local/shim/vnet"
	"verif.local/world"
)

var lengths = []int{0, 1, 47, 48, 49, 75, 76, 100, 1024, 2048}

type dgram struct {
	First   int    `json:"first_byte"`
	Fill    string `json:"fill"`
	Len     int    `json:"len"`
	Trailer string `json:"trailer"`
	Socket  int    `json:"socket"`
	Flip    int    `json:"flip,omitempty"`
}

func header(first byte, fill string) []byte {
	h := make([]byte, 48)
	switch fill {
	case "zeros":
	case "ff":
		for i := range h {
			h[i] = 0xff
		}
	case "a5":
		for i := range h {
			h[i] = 0xa5 ^ byte(i*7)
		}
	case "client":
		copy(h, kit.ClientHeader(world.Epoch))
		h[2] = 6
	}
	h[0] = first
	return h
}

// validHeader is the statement's predicate on the first byte.
func validHeader(b byte) bool {
	li, vn, mode := b>>6, (b>>3)&7, b&7
	if li != 0 && li != 3 {
		return false
	}
	return vn >= 2 && vn <= 4 && mode == 3 || vn == 1 && mode == 0
}

func TestCheck(t *testing.T) {
	mc.Main(t, "C09", func(r *mc.Run) {
		for _, nsock := range []int{1, 2} {
			if r.Replaying() {
				var in dgram
				if !r.ReplayInput(fmt.Sprintf("ip/%d", nsock), &in) {
					continue
				}
				runIP(r, nsock, &in)
				for _, v := range r.Rep.Violations {
					fmt.Printf("REPLAY-VERDICT: FAIL signature=%q\n%s\n", v.Signature, v.Message)
					t.Fail()
				}
				if len(r.Rep.Violations) == 0 {
					fmt.Println("REPLAY-VERDICT: PASS")
				}
				continue
			}
			if !r.Mine() {
				continue
			}
			runIP(r, nsock, nil)
		}
		r.Extra["rule"] = "IP listener (1 and 2 SO_REUSEPORT sockets): all 256 first bytes x 4 header fills x 10 datagram lengths (0..2048) x trailers {zeros, 0xff, constant}; valid NTS requests (pool levels 8 and 5) around every first byte, and with single flipped bytes; every reply is fed back into the listener. Distinct = distinct datagrams; non-trivial = length >= 48 (reaches validation)"
	})
}

func runIP(r *mc.Run, nsock int, only *dgram) {
	scen := fmt.Sprintf("ip/%d", nsock)
	x := &mc.X{}
	world.Run(r.T, x, func(w *world.World) {
		server.VerifResetTSS()
		sess := kit.NewSession(7)
		srvAddr := netip.MustParseAddrPort("10.0.0.1:123")
		socks := make([]*vnet.UDPConn, nsock)
		start := func(i int) {
			lc := vnet.ListenConfig{}
			pc, err := lc.ListenPacket(context.Background(), "udp", srvAddr.String())
			if err != nil {
				r.T.Fatal(err)
			}
			socks[i] = pc.(*vnet.UDPConn)
			world.FreshRegistry()
			w.Go(fmt.Sprintf("ipserver%d", i), func() {
				server.VerifRunIPServer(context.Background(), w.Log, socks[i], "", 0, sess.Provider)
			})
		}
		for i := range socks {
			start(i)
			w.Settle()
		}
		w.Settle()
		nclient := 0
		send := func(d dgram, payload []byte, expectReply bool, depth int) {
			r.Journal(fmt.Sprintf("%s %+v", scen, d))
			nclient++
			src := netip.AddrPortFrom(netip.AddrFrom4([4]byte{10, 1, byte(nclient >> 8), byte(nclient)}), uint16(1024+nclient%60000))
			before := w.Net.NumSent()
			s := socks[d.Socket%nsock]
			s.Deliver(&vnet.Datagram{From: src, To: srvAddr, Data: payload, RxTime: w.Clock.Now()})
			w.Settle()
			r.Evals++
			if len(payload) >= 48 {
				r.Distinct++
			}
			if len(w.Panics) > 0 {
				p := w.Panics[0]
				f := mc.PanicFailure(p.Value, p.Stack)
				r.Fail(scen, f.Signature, f.Message, d)
				w.Panics = nil
				// the listener goroutine is gone (in production: the process); restart it
				start(d.Socket % nsock)
				w.Settle()
				return
			}
			out := w.Net.SentSince(before)
			want := 0
			if expectReply {
				want = 1
			}
			if len(out) != want {
				sig := "reply-to-invalid-request"
				if expectReply {
					sig = "no-reply-to-valid-request"
				}
				if len(out) > 1 {
					sig = "more-than-one-reply"
				}
				r.Fail(scen, sig, fmt.Sprintf("datagram %+v (%d bytes, first byte %#02x): %d replies, want %d", d, len(payload), d.First, len(out), want), d)
				return
			}
			for _, o := range out {
				if o.To != src {
					r.Fail(scen, "reply-not-to-sender", fmt.Sprintf("reply to %v, sender was %v (%+v)", o.To, src, d), d)
				}
				if o.Sock != s {
					r.Fail(scen, "reply-from-other-socket", fmt.Sprintf("%+v", d), d)
				}
				var p ntp.Packet
				if err := ntp.DecodePacket(&p, o.Data); err != nil {
					r.Fail(scen, "reply-undecodable", fmt.Sprintf("%v (%+v)", err, d), d)
					continue
				}
				if p.Version() != 4 || p.Mode() != ntp.ModeServer || p.Stratum != 1 {
					r.Fail(scen, "reply-header-fields", fmt.Sprintf("reply VN=%d mode=%d stratum=%d (%+v)", p.Version(), p.Mode(), p.Stratum, d), d)
				}
				if validHeader(o.Data[0]) {
					r.Fail(scen, "reply-is-a-valid-request", fmt.Sprintf("reply first byte %#02x would itself be answered", o.Data[0]), d)
				}
				if depth == 0 {
					// reflection: a reply fed back must not be answered
					before2 := w.Net.NumSent()
					s.Deliver(&vnet.Datagram{From: src, To: srvAddr, Data: o.Data, RxTime: w.Clock.Now()})
					w.Settle()
					r.Evals++
					if n := w.Net.NumSent() - before2; n != 0 {
						r.Fail(scen, "reply-answered-when-fed-back", fmt.Sprintf("%d replies to a reflected reply (%+v)", n, d), d)
					}
				}
			}
		}
		build := func(d dgram) ([]byte, bool) {
			h := header(byte(d.First), d.Fill)
			switch d.Trailer {
			case "nts8", "nts5":
				pool := 8
				if d.Trailer == "nts5" {
					pool = 5
				}
				pkt, _ := sess.Request(h, pool)
				ok := validHeader(byte(d.First))
				if d.Flip != 0 {
					pkt[d.Flip] ^= 0x01
					ok = false
				}
				return pkt, ok
			}
			var p []byte
			if d.Len <= 48 {
				p = h[:d.Len]
			} else {
				p = make([]byte, d.Len)
				copy(p, h)
				for i := 48; i < d.Len; i++ {
					switch d.Trailer {
					case "ff":
						p[i] = 0xff
					case "const":
						p[i] = byte(0x3c + i%5)
					}
				}
			}
			return p, d.Len == 48 && validHeader(byte(d.First))
		}
		if only != nil {
			p, ok := build(*only)
			send(*only, p, ok, 0)
			return
		}
		sampled := 0
		for first := 0; first < 256; first++ {
			for _, fill := range []string{"zeros", "ff", "a5", "client"} {
				for li, l := range lengths {
					trailers := []string{"zeros"}
					if l > 48 {
						trailers = []string{"zeros", "ff", "const"}
					}
					for _, tr := range trailers {
						d := dgram{First: first, Fill: fill, Len: l, Trailer: tr, Socket: (first + li) % 2}
						p, ok := build(d)
						send(d, p, ok, 0)
						if sampled < 2 && ok {
							r.Sample(d)
							sampled++
						}
					}
				}
			}
			for _, tr := range []string{"nts8", "nts5"} {
				d := dgram{First: first, Fill: "client", Trailer: tr, Socket: first % 2}
				p, ok := build(d)
				d.Len = len(p)
				send(d, p, ok, 0)
				flips := []int{1, 47, 52, len(p) - 1}
				if first == 0x23 || first == 0xe3 || first == 0x08 {
					flips = flips[:0]
					for i := 1; i < len(p); i++ {
						// flipping the low bit of an extension length byte makes the
						// field unaligned by one; length zero (F1) cannot arise here
						flips = append(flips, i)
					}
				}
				for _, f := range flips {
					d := dgram{First: first, Fill: "client", Trailer: tr, Socket: first % 2, Flip: f}
					p, ok := build(d)
					d.Len = len(p)
					send(d, p, ok, 0)
				}
			}
		}
		_ = nts.MaxPacketLen
	})
}
