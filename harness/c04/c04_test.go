// C04: NTP timestamp conversion is exact to 1 ns within +-2^31 s of the
// reference, across eras (DESIGN.md C04). Exhaustive over all 10^9
// sub-second values and a boundary-dense seconds grid; the seconds and
// fraction parts of the code are independent, which the cross product on the
// boundary sets re-checks.
package c04

import (
	"fmt"
	"testing"
	"time"

	"example.com/scion-time/net/ntp"

	"verif.local/mc"
)

const eraSecs = int64(1) << 32

var ntpEpoch = time.Date(1900, 1, 1, 0, 0, 0, 0, time.UTC).Unix()

type in struct {
	RefUnix int64 `json:"ref_unix_s"`
	TUnix   int64 `json:"t_unix_s"`
	TNsec   int64 `json:"t_ns"`
	RefNsec int64 `json:"ref_ns,omitempty"`
}

func check(r *mc.Run, scen string, ref, t time.Time) {
	r.Evals++
	ts := ntp.Time64FromTime(t)
	back := ntp.TimeFromTime64(ts, ref)
	d := t.Sub(back)
	if back.After(t) {
		r.Fail(scen, "roundtrip-later-than-original", fmt.Sprintf("t=%v ref=%v: back=%v is later than t", t.UTC(), ref.UTC(), back), in{ref.Unix(), t.Unix(), int64(t.Nanosecond()), int64(ref.Nanosecond())})
	} else if d > 1 || t.Unix()-back.Unix() > 1 || t.Unix()-back.Unix() < -1 {
		sig := "roundtrip-more-than-1ns-early"
		if t.Unix()-back.Unix() > 1000 || t.Unix()-back.Unix() < -1000 {
			sig = "roundtrip-wrong-era"
		}
		r.Fail(scen, sig, fmt.Sprintf("t=%v ref=%v (t-ref=%ds): back=%v, difference %v", t.UTC(), ref.UTC(), t.Unix()-ref.Unix(), back, d), in{ref.Unix(), t.Unix(), int64(t.Nanosecond()), int64(ref.Nanosecond())})
	}
}

func refs() []time.Time {
	var out []time.Time
	add := func(u int64) { out = append(out, time.Unix(u, 0).UTC()) }
	add(0)                                                   // 1970
	add(time.Date(2024, 1, 17, 0, 0, 0, 0, time.UTC).Unix()) // the reference used by the unit tests
	for e := int64(1); e <= 3; e++ {                         // era 0/1, 1/2, 2/3 boundaries (2036, 2172, 2308)
		b := ntpEpoch + e*eraSecs
		for _, d := range []int64{-2, -1, 0, 1, 2, 100, -100, 1 << 31, -(1 << 31), 1<<31 - 1, -(1<<31 - 1)} {
			add(b + d)
		}
	}
	add(ntpEpoch + eraSecs + eraSecs/2)                     // mid era 1
	add(time.Date(2400, 1, 1, 0, 0, 0, 0, time.UTC).Unix()) // beyond 2400
	add(ntpEpoch + (int64(1) << 33))                        // 2^33 s after 1900
	return out
}

func TestCheck(t *testing.T) {
	mc.Main(t, "C04", func(r *mc.Run) {
		var rin in
		if r.Replaying() {
			for _, sc := range []string{"nsec", "frac", "seconds", "order", "edges"} {
				if r.ReplayInput(sc, &rin) {
					check(r, sc, time.Unix(rin.RefUnix, rin.RefNsec).UTC(), time.Unix(rin.TUnix, rin.TNsec).UTC())
				}
			}
			for _, v := range r.Rep.Violations {
				fmt.Printf("REPLAY-VERDICT: FAIL signature=%q\n%s\n", v.Signature, v.Message)
				t.Fail()
			}
			if len(r.Rep.Violations) == 0 {
				fmt.Println("REPLAY-VERDICT: PASS")
			}
			return
		}
		rs := refs()
		// 1. all 10^9 nanosecond values (quick: one reference and second; thorough: three references incl. across an era boundary)
		nsRefs := []time.Time{rs[1]}
		if r.Thorough() {
			nsRefs = append(nsRefs, time.Unix(ntpEpoch+eraSecs+1, 0).UTC(), time.Unix(ntpEpoch+eraSecs-1, 0).UTC())
		}
		const chunk = 1_000_000
		for ri, ref := range nsRefs {
			base := ref.Unix() + int64(ri)*3 - 3
			for c := int64(0); c < 1_000_000_000; c += chunk {
				if !r.Mine() {
					continue
				}
				for ns := c; ns < c+chunk; ns++ {
					check(r, "nsec", ref, time.Unix(base, ns).UTC())
				}
				r.Distinct += chunk
			}
		}
		// 2. all 2^32 fractions (thorough) / every 2^12-th plus neighbourhoods of multiples of 2^28 (quick):
		//    TimeFromTime64 -> Time64FromTime -> TimeFromTime64 is a fixed point and never later
		step := uint64(1)
		if !r.Thorough() {
			step = 1 << 12
		}
		ref := rs[1]
		secs := uint32(ref.Unix() - ntpEpoch)
		fracCheck := func(f uint32) {
			r.Evals++
			t1 := ntp.TimeFromTime64(ntp.Time64{Seconds: secs, Fraction: f}, ref)
			ts := ntp.Time64FromTime(t1)
			t2 := ntp.TimeFromTime64(ts, ref)
			if t2.After(t1) || t1.Sub(t2) > 1 {
				r.Fail("frac", "fraction-roundtrip", fmt.Sprintf("fraction %#x: %v -> %v -> %v", f, t1, ts, t2), in{ref.Unix(), t1.Unix(), int64(t1.Nanosecond()), 0})
			}
			if ts.Seconds != secs || ts.Fraction > f {
				r.Fail("frac", "fraction-grows", fmt.Sprintf("fraction %#x came back as %#x (seconds %d -> %d)", f, ts.Fraction, secs, ts.Seconds), in{ref.Unix(), t1.Unix(), int64(t1.Nanosecond()), 0})
			}
		}
		for c := uint64(0); c < 1<<32; c += 1 << 24 {
			if !r.Mine() {
				continue
			}
			for f := c; f < c+1<<24; f += step {
				fracCheck(uint32(f))
			}
			r.Distinct += int64((1 << 24) / step)
		}
		if !r.Thorough() && r.Mine() {
			for m := uint64(0); m <= 1<<32; m += 1 << 28 {
				for d := int64(-4096); d <= 4096; d++ {
					f := int64(m) + d
					if f >= 0 && f < 1<<32 {
						fracCheck(uint32(f))
					}
				}
			}
		}
		// 3. seconds grid x boundary nanoseconds
		offs := []int64{-(1 << 31), -(1 << 31) + 1, -1, 0, 1, 1<<31 - 2, 1<<31 - 1}
		nss := []int64{0, 1, 2, 499_999_999, 500_000_000, 999_999_998, 999_999_999}
		for _, ref := range rs {
			if !r.Mine() {
				continue
			}
			tryOff := func(off int64) {
				for _, ns := range nss {
					if off == 1<<31-1 && ns > 0 {
						// t - ref must stay below 2^31 s
					}
					check(r, "seconds", ref, time.Unix(ref.Unix()+off, ns).UTC())
				}
				r.Distinct++
			}
			for _, off := range offs {
				tryOff(off)
			}
			// all 2^16 offsets around each era boundary that is inside the window
			for e := int64(0); e <= 4; e++ {
				b := ntpEpoch + e*eraSecs
				if b-ref.Unix() < -(1<<31)-70000 || b-ref.Unix() > 1<<31+70000 {
					continue
				}
				for d := int64(-32768); d < 32768; d++ {
					off := b + d - ref.Unix()
					if off < -(1<<31) || off >= 1<<31 {
						continue
					}
					tryOff(off)
				}
			}
			// dense sweep of the whole window (quick: every 2^16+1 s, thorough: every 257 s)
			st := int64(1<<16 + 1)
			if r.Thorough() {
				st = 257
			}
			for off := int64(-(1 << 31)); off < 1<<31; off += st {
				check(r, "seconds", ref, time.Unix(ref.Unix()+off, 999_999_999).UTC())
			}
			// order preservation on adjacent instants
			for _, off := range []int64{-(1 << 31), -1, 0, 1<<31 - 2} {
				a := time.Unix(ref.Unix()+off, 999_999_999).UTC()
				b := a.Add(1)
				ba := ntp.TimeFromTime64(ntp.Time64FromTime(a), ref)
				bb := ntp.TimeFromTime64(ntp.Time64FromTime(b), ref)
				r.Evals++
				if bb.Before(ba) {
					r.Fail("order", "order-not-preserved", fmt.Sprintf("ref=%v: %v<%v but %v>%v", ref, a, b, ba, bb), in{ref.Unix(), a.Unix(), 999_999_999, 0})
				}
			}
		}
		// 4. references with a sub-second part: the window is [ref-2^31 s, ref+2^31 s)
		// around the reference itself, not around its whole seconds
		half := time.Duration(1<<31) * time.Second
		for _, ref0 := range rs {
			if !r.Mine() {
				continue
			}
			for _, rns := range []int64{1, 100_000_000, 500_000_000, 900_000_000, 999_999_999} {
				ref := time.Unix(ref0.Unix(), rns).UTC()
				for _, d := range []time.Duration{0, 1, 2, 100 * time.Millisecond, 800 * time.Millisecond, 999_999_999, time.Second, time.Second + 1} {
					check(r, "edges", ref, ref.Add(half-1-d)) // upper edge, inside
					check(r, "edges", ref, ref.Add(-half+d))  // lower edge, inside
				}
				r.Distinct++
			}
		}
		// 5. order on the wire format: Time64.Before / After on the converted
		// values agree with the order of the times, for all pairs from the
		// seconds grid x boundary nanoseconds whose whole seconds are less than
		// 2^31 apart (the comparison's documented range), across era boundaries
		for _, ref := range rs {
			if !r.Mine() {
				continue
			}
			var ts []time.Time
			for _, off := range offs {
				for _, ns := range nss {
					ts = append(ts, time.Unix(ref.Unix()+off, ns).UTC())
				}
			}
			for _, a := range ts {
				ta := ntp.Time64FromTime(a)
				for _, b := range ts {
					if !a.Before(b) || b.Unix()-a.Unix() >= 1<<31 {
						continue
					}
					tb := ntp.Time64FromTime(b)
					r.Evals++
					bad := tb.Before(ta) || ta.After(tb) || ta.Before(ta) || ta.After(ta)
					if ta != tb && (!ta.Before(tb) || !tb.After(ta)) {
						bad = true
					}
					if bad {
						r.Fail("wire-order", "timestamp-order-not-preserved", fmt.Sprintf("ref=%v: %v < %v but timestamps %v / %v compare Before=%v/%v After=%v/%v", ref, a, b, ta, tb, ta.Before(tb), tb.Before(ta), ta.After(tb), tb.After(ta)), in{ref.Unix(), a.Unix(), int64(a.Nanosecond()), 0})
					}
				}
			}
		}
		r.Sample(in{rs[3].Unix(), rs[3].Unix() - 100, 999_999_999, 0})
		r.Sample(map[string]any{"references": len(rs), "ns_references": len(nsRefs), "fraction_step": step})
		r.Extra["rule"] = "all 10^9 nanoseconds (1 reference quick, 3 thorough) + fractions (every 2^12-th and +-4096 around multiples of 2^28 quick, all 2^32 thorough) + 38 reference times (1970, 2024, +-{0,1,2,100,2^31-1,2^31} s around the era boundaries of 2036/2172/2308, mid-era, 2400, 2^33 s) x {window edges, all 2^16 second offsets around each era boundary in the window, a sweep of the window} x 7 boundary nanoseconds; Time64.Before/After on all pairs of the 49 grid times per reference whose whole seconds are < 2^31 apart; distinct = distinct (reference, time) pairs"
	})
}
