// C10: NTS authentication is sound - only untampered packets under the right
// key pass (DESIGN.md C10). Requests are judged by the real IP listener,
// responses by the client's decode/process functions, cookies by
// Decode/Decrypt; every single-bit flip and every length/type field value of
// every encoded packet is enumerated.
package c10

import (
	"bytes"
	"context"
	"crypto/tls"
	"encoding/binary"
	"fmt"
	"net"
	"net/netip"
	"testing"

	"example.com/scion-time/core/server"
	"example.com/scion-time/net/nts"
	"example.com/scion-time/net/ntske"

	"verif.local/kit"
	"verif.local/mc"
	"verif.local/shim/vnet"
	"verif.local/world"
)

type in struct {
	Kind  string `json:"kind"`
	Level int    `json:"level"`
	Byte  int    `json:"byte"`
	Bit   int    `json:"bit"`
	Val   int    `json:"val"`
}

var fieldVals = []uint16{0, 1, 2, 3, 4, 8, 0x7fff, 0xffff}

// authRegion returns the offset of the authenticator extension field.
func authRegion(b []byte) int {
	pos := 48
	for pos+4 <= len(b) {
		if binary.BigEndian.Uint16(b[pos:]) == 0x404 {
			return pos
		}
		pos += int(binary.BigEndian.Uint16(b[pos+2:]))
	}
	return -1
}

func recovered(f func()) (p any) {
	defer func() { p = recover() }()
	f()
	return nil
}

// requests: every mutation of every request shape goes through the listener.
func requests(r *mc.Run) {
	x := &mc.X{}
	world.Run(r.T, x, func(w *world.World) {
		server.VerifResetTSS()
		nw := kit.NewNTSWorld(w)
		sess := &kit.Session{C2S: bytes.Repeat([]byte{7}, 32), S2C: bytes.Repeat([]byte{9}, 32), Provider: nw.Provider}
		other := &kit.Session{C2S: bytes.Repeat([]byte{8}, 32), S2C: bytes.Repeat([]byte{7}, 32), Provider: nw.Provider}
		n := 0
		send := func(b []byte) int {
			n++
			from := netip.AddrPortFrom(netip.AddrFrom4([4]byte{10, 2, byte(n >> 8), byte(n)}), 4000)
			out := nw.ToServer(&vnet.Datagram{From: from, To: nw.SrvAddr, Data: b})
			if len(w.Panics) > 0 {
				p := w.Panics[0]
				w.Panics = nil
				f := mc.PanicFailure(p.Value, p.Stack)
				r.Fail("request", f.Signature, f.Message, in{Kind: "request"})
				nw.StartListener()
				return 0
			}
			return len(out)
		}
		for level := 2; level <= 8; level++ {
			if !r.Mine() {
				continue
			}
			hdr := kit.ClientHeader(w.Clock.Peek())
			good, _ := sess.Request(hdr, level)
			r.Journal(fmt.Sprintf("request level %d", level))
			r.Evals++
			if send(good) != 1 {
				r.Fail("request", "own-request-rejected", fmt.Sprintf("the project's own request at pool level %d (%d bytes) got no reply", level, len(good)), in{Kind: "request", Level: level})
				continue
			}
			ap := authRegion(good)
			judge := func(m []byte, i in, what string) {
				r.Evals++
				r.Distinct++
				replies := send(m)
				protected := i.Byte < ap || i.Byte >= ap+4
				if replies != 0 && protected {
					r.Fail("request", "tampered-request-served", fmt.Sprintf("request at pool level %d with %s (offset %d of %d, authenticator at %d) was served", level, what, i.Byte, len(m), ap), i)
				}
			}
			for i := 0; i < len(good); i++ {
				for bit := 0; bit < 8; bit++ {
					m := bytes.Clone(good)
					m[i] ^= 1 << bit
					judge(m, in{Kind: "request", Level: level, Byte: i, Bit: bit}, fmt.Sprintf("bit %d of byte %d flipped", bit, i))
				}
			}
			if r.Thorough() && (level == 8 || level == 2) {
				// every pair of flipped bits (a forger may compensate one change with another)
				nb := len(good) * 8
				for a := 0; a < nb && !r.Expired(); a++ {
					r.Journal(fmt.Sprintf("request level %d, two-bit flips, first bit %d", level, a))
					for b := a + 1; b < nb; b++ {
						m := bytes.Clone(good)
						m[a/8] ^= 1 << (a % 8)
						m[b/8] ^= 1 << (b % 8)
						r.Evals++
						r.Distinct++
						if send(m) != 0 && !((a/8 >= ap && a/8 < ap+4) && (b/8 >= ap && b/8 < ap+4)) {
							r.Fail("request", "tampered-request-served", fmt.Sprintf("request at pool level %d with bits %d and %d flipped was served", level, a, b), in{Kind: "request-2bit", Level: level, Byte: a, Bit: b})
						}
					}
				}
				if r.Expired() {
					r.NotExhaustive("deadline in two-bit request flips")
				}
			}
			// every type / length field of every extension field, and the nonce / ciphertext lengths
			for pos := 48; pos+4 <= len(good); {
				l := int(binary.BigEndian.Uint16(good[pos+2:]))
				offs := []int{pos, pos + 2}
				if pos == ap {
					offs = append(offs, pos+4, pos+6)
				}
				for _, o := range offs {
					for _, v := range append(fieldVals, uint16(l-4), uint16(l+4), uint16(len(good)-pos+4)) {
						m := bytes.Clone(good)
						binary.BigEndian.PutUint16(m[o:], v)
						if bytes.Equal(m, good) {
							continue
						}
						judge(m, in{Kind: "request-field", Level: level, Byte: o, Val: int(v)}, fmt.Sprintf("16-bit field at %d set to %#x", o, v))
					}
				}
				pos += l
			}
			// truncations
			for l := 49; l < len(good); l++ { // 48 bytes is a plain, unauthenticated NTP request
				judge(bytes.Clone(good[:l]), in{Kind: "request-trunc", Level: level, Byte: l}, fmt.Sprintf("truncation to %d bytes", l))
			}
			// unauthenticated fields appended after the authenticator: if the listener
			// answers at all, the reply must carry the authenticated unique identifier
			var gp nts.Packet
			nts.DecodePacket(&gp, good)
			for name, tail := range map[string][]byte{
				"unique-identifier": append([]byte{0x01, 0x04, 0x00, 0x24}, bytes.Repeat([]byte{0x5c}, 32)...),
				"cookie":            append([]byte{0x02, 0x04, 0x00, 0x80}, make([]byte, 124)...),
			} {
				if len(good)+len(tail) > 1024 {
					continue
				}
				m := append(bytes.Clone(good), tail...)
				r.Evals++
				n++
				from := netip.AddrPortFrom(netip.AddrFrom4([4]byte{10, 3, byte(n >> 8), byte(n)}), 4000)
				out := nw.ToServer(&vnet.Datagram{From: from, To: nw.SrvAddr, Data: m})
				if len(w.Panics) > 0 {
					w.Panics = nil
					nw.StartListener()
					continue
				}
				for _, o := range out {
					var rp nts.Packet
					if nts.DecodePacket(&rp, o.Data) == nil && !bytes.Equal(rp.UniqueID.ID[:32], gp.UniqueID.ID[:32]) {
						r.Fail("request", "reply-echoes-unauthenticated-identifier", fmt.Sprintf("request at level %d with an unauthenticated %s field appended: the reply carries an identifier that was not authenticated", level, name), in{Kind: "request-append", Level: level})
					}
				}
			}
			// a second association whose client-to-server key differs from this one's in
			// one bit: its cookie on a request sealed under this association's key, right
			// after a genuine request of this association was served
			// (bits of the first key half only: a request's authenticator encrypts nothing,
			// and AES-SIV then uses just the S2V half of the key, so keys differing in the
			// CTR half are indistinguishable by construction, not by a fault of the code)
			for _, bit := range []int{0, 7, 63, 64, 120, 127} {
				near := &kit.Session{C2S: bytes.Clone(sess.C2S), S2C: sess.S2C, Provider: nw.Provider}
				near.C2S[bit/8] ^= 1 << (bit % 8)
				g, _ := sess.Request(hdr, level)
				r.Evals += 2
				if send(g) != 1 {
					r.Fail("request", "own-request-rejected", fmt.Sprintf("genuine request at level %d rejected on repetition", level), in{Kind: "request-key", Level: level, Bit: bit})
					break
				}
				d := near.Data(level)
				d.C2sKey = sess.C2S
				req, _ := nts.NewRequestPacket(d)
				buf := bytes.Clone(hdr)
				nts.EncodePacket(&buf, &req)
				if send(buf) != 0 {
					r.Fail("request", "request-under-wrong-key-served", fmt.Sprintf("cookie of an association whose key differs in bit %d, request sealed under this association's key: served", bit), in{Kind: "request-key", Level: level, Bit: bit})
				}
			}
			// wrong key / direction / session
			for name, key := range map[string][]byte{"s2c-instead-of-c2s": sess.S2C, "other-session": other.C2S} {
				d := sess.Data(level)
				d.C2sKey = key
				req, _ := nts.NewRequestPacket(d)
				buf := bytes.Clone(hdr)
				nts.EncodePacket(&buf, &req)
				r.Evals++
				if send(buf) != 0 {
					r.Fail("request", "request-under-wrong-key-served", fmt.Sprintf("request sealed with %s was served", name), in{Kind: "request-key", Level: level})
				}
			}
		}
	})
}

// responses: the client side functions.
func responses(r *mc.Run) {
	key := bytes.Repeat([]byte{9}, 32)
	c2s := bytes.Repeat([]byte{7}, 32)
	otherKey := bytes.Repeat([]byte{5}, 32)
	uid := bytes.Repeat([]byte{3}, 32)
	hdr := make([]byte, 48)
	hdr[0] = 0x24
	accept := func(b []byte, k []byte, id []byte) (bool, int) {
		var pkt nts.Packet
		var f ntske.Fetcher
		var err error
		if p := recovered(func() {
			err = nts.DecodePacket(&pkt, b)
			if err == nil {
				err = nts.ProcessResponse(b, k, &f, &pkt, id)
			}
		}); p != nil {
			return false, -1
		}
		return err == nil, len(f.VerifData().Cookie)
	}
	for ncook := 1; ncook <= 7; ncook++ {
		if !r.Mine() {
			continue
		}
		var cookies [][]byte
		for i := 0; i < ncook; i++ {
			cookies = append(cookies, bytes.Repeat([]byte{byte(0x40 + i)}, 124))
		}
		resp := nts.NewResponsePacket(cookies, key, uid)
		good := bytes.Clone(hdr)
		nts.EncodePacket(&good, &resp)
		r.Evals++
		if ok, n := accept(good, key, uid); !ok || n != ncook {
			r.Fail("response", "own-response-rejected", fmt.Sprintf("the project's own response with %d cookies: accepted=%v cookies=%d", ncook, ok, n), in{Kind: "response", Level: ncook})
			continue
		}
		ap := authRegion(good)
		for i := 0; i < len(good); i++ {
			for bit := 0; bit < 8; bit++ {
				m := bytes.Clone(good)
				m[i] ^= 1 << bit
				r.Evals++
				r.Distinct++
				ok, _ := accept(m, key, uid)
				protected := i < ap || i >= ap+4
				if ok && protected {
					r.Fail("response", "tampered-response-accepted", fmt.Sprintf("response with %d cookies, bit %d of byte %d flipped (authenticator at %d): accepted", ncook, bit, i, ap), in{Kind: "response", Level: ncook, Byte: i, Bit: bit})
				}
			}
		}
		if r.Thorough() && (ncook == 1 || ncook == 3) {
			nb := len(good) * 8
			for a := 0; a < nb && !r.Expired(); a++ {
				r.Journal(fmt.Sprintf("response with %d cookies, two-bit flips, first bit %d", ncook, a))
				for b := a + 1; b < nb; b++ {
					m := bytes.Clone(good)
					m[a/8] ^= 1 << (a % 8)
					m[b/8] ^= 1 << (b % 8)
					r.Evals++
					r.Distinct++
					if ok, _ := accept(m, key, uid); ok && !((a/8 >= ap && a/8 < ap+4) && (b/8 >= ap && b/8 < ap+4)) {
						r.Fail("response", "tampered-response-accepted", fmt.Sprintf("response with %d cookies, bits %d and %d flipped: accepted", ncook, a, b), in{Kind: "response-2bit", Level: ncook, Byte: a, Bit: b})
					}
				}
			}
			if r.Expired() {
				r.NotExhaustive("deadline in two-bit response flips")
			}
		}
		for pos := 48; pos+4 <= len(good); {
			l := int(binary.BigEndian.Uint16(good[pos+2:]))
			offs := []int{pos, pos + 2}
			if pos == ap {
				offs = append(offs, pos+4, pos+6)
			}
			for _, o := range offs {
				for _, v := range append(fieldVals, uint16(l-4), uint16(l+4)) {
					m := bytes.Clone(good)
					binary.BigEndian.PutUint16(m[o:], v)
					if bytes.Equal(m, good) {
						continue
					}
					r.Evals++
					r.Distinct++
					ok, _ := accept(m, key, uid)
					if ok && (o < ap || o >= ap+4) {
						r.Fail("response", "tampered-response-accepted", fmt.Sprintf("response with %d cookies, field at %d set to %#x: accepted", ncook, o, v), in{Kind: "response-field", Level: ncook, Byte: o, Val: int(v)})
					}
				}
			}
			pos += l
		}
		for l := 48; l < len(good); l++ {
			r.Evals++
			if ok, _ := accept(good[:l], key, uid); ok {
				r.Fail("response", "tampered-response-accepted", fmt.Sprintf("response truncated to %d bytes accepted", l), in{Kind: "response-trunc", Level: ncook, Byte: l})
			}
		}
		for name, k := range map[string][]byte{"c2s-instead-of-s2c": c2s, "other-session": otherKey} {
			r.Evals++
			if ok, _ := accept(good, k, uid); ok {
				r.Fail("response", "response-under-wrong-key-accepted", name, in{Kind: "response-key", Level: ncook})
			}
		}
		// every key differing from the session key in a single bit, presented right
		// after the genuine packet was verified under the genuine key (so whatever the
		// implementation keeps per key is warm)
		if ncook == 1 || ncook == 7 {
			for bit := 0; bit < 256; bit++ {
				k := bytes.Clone(key)
				k[bit/8] ^= 1 << (bit % 8)
				r.Evals += 2
				if ok, _ := accept(good, key, uid); !ok {
					r.Fail("response", "own-response-rejected", fmt.Sprintf("genuine response rejected on repetition %d", bit), in{Kind: "response-key", Level: ncook, Bit: bit})
					break
				}
				if ok, _ := accept(good, k, uid); ok {
					r.Fail("response", "response-under-wrong-key-accepted", fmt.Sprintf("key with bit %d flipped, right after verification under the genuine key", bit), in{Kind: "response-key", Level: ncook, Bit: bit})
				}
			}
		}
		// data appended after the authenticator is not authenticated: it must not
		// make the packet pass for a different request, nor add cookies
		otherUID := bytes.Repeat([]byte{0x5c}, 32)
		ext := func(t uint16, body []byte) []byte {
			b := make([]byte, 4, 4+len(body))
			binary.BigEndian.PutUint16(b, t)
			binary.BigEndian.PutUint16(b[2:], uint16(4+len(body)))
			return append(b, body...)
		}
		tails := map[string][]byte{
			"unique-identifier": ext(0x104, otherUID),
			"cookie":            ext(0x204, bytes.Repeat([]byte{0x77}, 124)),
			"placeholder":       ext(0x304, make([]byte, 124)),
			"unknown":           ext(0x999, make([]byte, 28)),
			"second-authenticator": func() []byte {
				r2 := nts.NewResponsePacket(cookies[:1], otherKey, otherUID)
				b2 := bytes.Clone(hdr)
				nts.EncodePacket(&b2, &r2)
				return b2[authRegion(b2):]
			}(),
			"uid+padding": append(ext(0x104, otherUID), make([]byte, 28)...),
		}
		for name, tail := range tails {
			if len(good)+len(tail) > 2048 {
				continue
			}
			m := append(bytes.Clone(good), tail...)
			r.Evals++
			r.Distinct++
			if ok, _ := accept(m, key, otherUID); ok {
				r.Fail("response", "response-to-other-request-accepted", fmt.Sprintf("genuine response to request A with an unauthenticated %s field appended is accepted for request B", name), in{Kind: "response-append", Level: ncook})
			}
			if ok, _ := accept(m, otherKey, otherUID); ok {
				r.Fail("response", "response-under-wrong-key-accepted", fmt.Sprintf("appended %s: accepted under another session's key", name), in{Kind: "response-append", Level: ncook})
			}
			if ok, n := accept(m, key, uid); ok && n != ncook {
				r.Fail("response", "unauthenticated-cookie-stored", fmt.Sprintf("appended %s: response accepted with %d cookies, %d were sealed", name, n, ncook), in{Kind: "response-append", Level: ncook})
			}
		}
		wrong := bytes.Clone(uid)
		wrong[31] ^= 1
		r.Evals++
		if ok, _ := accept(good, key, wrong); ok {
			r.Fail("response", "response-to-other-request-accepted", "unique identifier differs from the outstanding request", in{Kind: "response-uid", Level: ncook})
		}
		if ok, _ := accept(good, key, uid[:31]); ok {
			r.Fail("response", "response-to-other-request-accepted", "unique identifier is a prefix of the outstanding request's", in{Kind: "response-uid", Level: ncook})
		}
	}
}

func cookies(r *mc.Run) {
	if !r.Mine() {
		return
	}
	type sealed struct {
		good, key []byte
		sc        ntske.ServerCookie
	}
	var all []sealed
	defer func() {
		// what one cookie opened to stays what it is while other cookies (of other
		// sessions, valid or not) are opened: overlapping sessions keep their own keys
		for i, a := range all {
			for j, b := range all {
				for _, op := range []string{"valid", "wrong-key", "tampered"} {
					var ea ntske.EncryptedServerCookie
					if err := ea.Decode(a.good); err != nil {
						continue
					}
					got, err := ea.Decrypt(a.key)
					if err != nil {
						continue
					}
					var eb ntske.EncryptedServerCookie
					m, k := bytes.Clone(b.good), b.key
					switch op {
					case "wrong-key":
						k = bytes.Repeat([]byte{0xee}, 32)
					case "tampered":
						m[len(m)-1] ^= 1
					}
					if eb.Decode(m) == nil {
						eb.Decrypt(k)
					}
					r.Evals++
					if got.Algo != a.sc.Algo || !bytes.Equal(got.S2C, a.sc.S2C) || !bytes.Equal(got.C2S, a.sc.C2S) {
						r.Fail("cookie", "opened-cookie-changed-by-later-open", fmt.Sprintf("keys obtained from cookie %d changed when cookie %d (%s) was opened afterwards", i, j, op), in{Kind: "cookie-overlap", Level: i, Byte: j})
					}
				}
			}
		}
	}()
	for ki, kl := range [][2]int{{32, 32}, {32, 32}, {16, 16}} {
		sealing := bytes.Repeat([]byte{byte(0x11 * (ki + 1))}, 32)
		otherKey := bytes.Repeat([]byte{0xee}, 32)
		sc := ntske.ServerCookie{Algo: 15, S2C: bytes.Repeat([]byte{byte(1 + ki)}, kl[0]), C2S: bytes.Repeat([]byte{byte(2 + ki)}, kl[1])}
		if ki == 1 {
			sc.C2S = sc.S2C // equal halves
		}
		ec, err := sc.EncryptWithNonce(sealing, 77+ki)
		if err != nil {
			r.T.Fatal(err)
		}
		good := ec.Encode()
		all = append(all, sealed{good, sealing, sc})
		open := func(b []byte, key []byte) (ntske.ServerCookie, bool) {
			var e ntske.EncryptedServerCookie
			var out ntske.ServerCookie
			var err error
			if p := recovered(func() {
				err = e.Decode(b)
				if err == nil {
					out, err = e.Decrypt(key)
				}
			}); p != nil {
				return out, false
			}
			return out, err == nil
		}
		same := func(a ntske.ServerCookie) bool {
			return a.Algo == sc.Algo && bytes.Equal(a.S2C, sc.S2C) && bytes.Equal(a.C2S, sc.C2S)
		}
		r.Evals++
		if got, ok := open(good, sealing); !ok || !same(got) {
			r.Fail("cookie", "own-cookie-rejected", fmt.Sprintf("cookie does not open under its sealing key: %+v", got), in{Kind: "cookie", Level: ki})
		}
		if _, ok := open(good, otherKey); ok {
			r.Fail("cookie", "cookie-opens-under-other-key", "cookie opened under a different server key", in{Kind: "cookie", Level: ki})
		}
		for i := 0; i < len(good); i++ {
			for bit := 0; bit < 8; bit++ {
				m := bytes.Clone(good)
				m[i] ^= 1 << bit
				r.Evals++
				r.Distinct++
				if got, ok := open(m, sealing); ok && !same(got) {
					r.Fail("cookie", "tampered-cookie-yields-other-content", fmt.Sprintf("bit %d of byte %d flipped: opened to %+v", bit, i, got), in{Kind: "cookie", Level: ki, Byte: i, Bit: bit})
				} else if ok && (i < 4 || i >= 6) && !(i >= 0 && i < 2) {
					// only the key identifier value (bytes 4,5) is outside the sealed data
					if i >= 6 {
						r.Fail("cookie", "tampered-cookie-accepted", fmt.Sprintf("bit %d of byte %d (nonce/ciphertext/TLV header) flipped: still opens", bit, i), in{Kind: "cookie", Level: ki, Byte: i, Bit: bit})
					}
				}
			}
		}
		for o := 0; o+2 <= len(good); o += 2 {
			for _, v := range fieldVals {
				m := bytes.Clone(good)
				binary.BigEndian.PutUint16(m[o:], v)
				r.Evals++
				if got, ok := open(m, sealing); ok && !same(got) {
					r.Fail("cookie", "tampered-cookie-yields-other-content", fmt.Sprintf("16-bit word at %d set to %#x: opened to %+v", o, v, got), in{Kind: "cookie-field", Level: ki, Byte: o, Val: int(v)})
				}
			}
		}
	}
}

// direction: session keys come from the project's own ExportKeys on both ends of a
// real TLS 1.3 session; a packet sealed for one direction must not pass in the other.
func direction(r *mc.Run) {
	if !r.Mine() {
		return
	}
	x := &mc.X{}
	world.Run(r.T, x, func(w *world.World) {
		var cd, sd ntske.Data
		c, s := w.Net.NewStreamPair(&net.TCPAddr{IP: net.IPv4(10, 0, 0, 2), Port: 50000}, &net.TCPAddr{IP: net.IPv4(10, 0, 0, 1), Port: 4460})
		w.Go("tls-server", func() {
			tc := tls.Server(s, kit.ServerTLS("ntske/1"))
			if tc.Handshake() == nil {
				ntske.ExportKeys(tc.ConnectionState(), &sd)
			}
		})
		w.Go("tls-client", func() {
			cfg := kit.ClientTLS()
			cfg.NextProtos = []string{"ntske/1"}
			tc := tls.Client(c, &cfg)
			if tc.Handshake() == nil {
				ntske.ExportKeys(tc.ConnectionState(), &cd)
			}
		})
		w.Settle()
		r.Evals += 4
		r.Distinct += 4
		if len(cd.C2sKey) != 32 || !bytes.Equal(cd.C2sKey, sd.C2sKey) || !bytes.Equal(cd.S2cKey, sd.S2cKey) {
			r.Fail("direction", "exported-keys-disagree", "client and server ExportKeys differ", in{Kind: "direction"})
			return
		}
		if bytes.Equal(cd.C2sKey, cd.S2cKey) {
			r.Fail("direction", "directions-share-a-key", "ExportKeys returned the same key for client-to-server and server-to-client", in{Kind: "direction"})
		}
		// a request reflected to its sender must not pass as the response
		hdr := kit.ClientHeader(w.Clock.Peek())
		d := ntske.Data{C2sKey: cd.C2sKey, S2cKey: cd.S2cKey, Cookie: [][]byte{bytes.Repeat([]byte{1}, 124)}}
		req, id := nts.NewRequestPacket(d)
		buf := bytes.Clone(hdr)
		nts.EncodePacket(&buf, &req)
		var pkt nts.Packet
		var f ntske.Fetcher
		if nts.DecodePacket(&pkt, buf) == nil && nts.ProcessResponse(buf, cd.S2cKey, &f, &pkt, id) == nil {
			r.Fail("direction", "reflected-request-accepted-as-response", "the client's own request, sealed for client-to-server, verifies under the server-to-client key of the same session", in{Kind: "direction"})
		}
		// a response presented as a request must not pass at the server
		resp := nts.NewResponsePacket([][]byte{bytes.Repeat([]byte{2}, 124)}, sd.S2cKey, id)
		rb := bytes.Clone(hdr)
		nts.EncodePacket(&rb, &resp)
		var rp nts.Packet
		if nts.DecodePacket(&rp, rb) == nil && nts.ProcessRequest(rb, sd.C2sKey, &rp) == nil {
			r.Fail("direction", "response-accepted-as-request", "a packet sealed for server-to-client verifies under the client-to-server key", in{Kind: "direction"})
		}
	})
}

func TestCheck(t *testing.T) {
	mc.Main(t, "C10", func(r *mc.Run) {
		_ = context.Background
		requests(r)
		responses(r)
		cookies(r)
		direction(r)
		if r.Replaying() {
			for _, v := range r.Rep.Violations {
				fmt.Printf("REPLAY-VERDICT: FAIL signature=%q\n%s\n", v.Signature, v.Message)
				t.Fail()
			}
			if len(r.Rep.Violations) == 0 {
				fmt.Println("REPLAY-VERDICT: PASS")
			}
			return
		}
		r.Sample(in{Kind: "request", Level: 5, Byte: 100, Bit: 3})
		r.Sample(in{Kind: "response-field", Level: 2, Byte: 86, Val: 0xffff})
		r.Extra["rule"] = "requests of the project's encoder at pool levels 2..8 through the real IP listener, responses with 1..7 cookies through DecodePacket/ProcessResponse, three sealed cookies through Decode/Decrypt (and every ordered pair of them opened in overlap: the first result must survive the second open): every single-bit flip (thorough: every pair of bit flips of the requests at pool levels 8 and 2 and of the responses with 1 and 3 cookies), every extension type/length and nonce/ciphertext length field over 8+3 values, every truncation, wrong key / direction / session, every single-bit variation of the session key presented right after a genuine verification, wrong and shortened unique identifier, session keys from the project's ExportKeys on both ends of a real TLS session with packets presented in the opposite direction, unauthenticated fields (unique identifier, cookie, placeholder, unknown, second authenticator) appended after the authenticator; distinct = distinct mutated packets"
	})
}
