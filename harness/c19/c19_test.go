// C19: PLL clock discipline - bounded slew, no step once tracking, sane
// actuation (DESIGN.md C19). The real adjustments.Pll runs against a scripted
// clock that records Step/Adjust; a reference phase machine written from the
// statement is stepped alongside.
package c19

import (
	"fmt"
	"math"
	"testing"
	"time"

	"example.com/scion-time/core/sync/adjustments"

	"verif.local/mc"
	"verif.local/world"
)

var (
	dts     = []time.Duration{6*time.Second + 1, 0, 1, 500 * time.Millisecond, time.Second, 2 * time.Second, 2*time.Second + 1, 6 * time.Second, 301 * time.Second}
	offsets = []time.Duration{time.Millisecond + 1, 0, time.Millisecond, -time.Millisecond, -(time.Millisecond + 1), time.Second, -time.Second, 1 << 62, -(1 << 62), math.MaxInt64, math.MinInt64 + 1}
	weights = []float64{50, 0, 3, math.Nextafter(3, 4), 49, 149, 150, 1e12, math.Inf(1), math.NaN()}
)

type model struct {
	phase   int
	epoch   uint64
	t0      time.Time
	last    time.Time
	started bool
}

// program: `nominal` scripted updates (the start-up sequence: first update,
// then 6 s + 1 ns steps with offset 1 ms + 1 ns and weight 50) followed by
// `steps` explored updates.
func program(nominal, steps int, stepBumps bool) func(x *mc.X) {
	return func(x *mc.X) {
		now := time.Date(2025, 1, 1, 0, 0, 0, 0, time.UTC)
		clk := &world.Clock{StepBumpsEpoch: stepBumps}
		clk.Fixed = func() time.Time { return now }
		pll := adjustments.NewPLL(world.Discard, clk)
		m := model{}
		for s := 0; s < nominal+steps; s++ {
			dt, off, w, bump := dts[0], offsets[0], weights[0], false
			if s >= nominal {
				dt = dts[x.Choose(len(dts), "dt")]
				off = offsets[x.Choose(len(offsets), "offset")]
				w = weights[x.Choose(len(weights), "weight")]
				bump = x.Choose(2, "epoch-bump") == 1
			}
			if s == 0 {
				dt = 0
			}
			now = now.Add(dt)
			if bump {
				clk.EpochV++
			}
			ns, na := len(clk.Steps), len(clk.Adjs)
			epochBefore := clk.EpochV
			x.Logf("update %d: +%v offset=%v weight=%v epoch=%d", s, dt, off, w, epochBefore)
			pll.Do(off, w)
			x.Transitions++
			newSteps, newAdjs := clk.Steps[ns:], clk.Adjs[na:]
			// ---- reference phase machine (from the statement)
			if !m.started || m.epoch != epochBefore {
				m = model{started: true, epoch: epochBefore, phase: 0}
			}
			wantStep, mayAdjust := false, false
			switch m.phase {
			case 0:
				m.t0 = now
				m.phase = 1
			case 1:
				if now.Sub(m.t0) > 2*time.Second && w > 3 {
					wantStep = off.Abs() > time.Millisecond
					m.t0 = now
					m.phase = 2
				}
			case 2:
				if now.Sub(m.t0) > 6*time.Second {
					m.t0 = now
					m.phase = 3
				}
			case 3:
				mayAdjust = true
			}
			elapsed := now.Sub(m.last)
			m.last = now
			// ---- oracle
			if len(newSteps) > 1 || len(newAdjs) > 1 {
				x.Failf("pll-multiple-actuations", "update %d: %d steps, %d adjustments", s, len(newSteps), len(newAdjs))
			}
			if len(newSteps) == 1 {
				if !wantStep {
					x.Failf("pll-unexpected-step", "update %d: Step(%v) in phase %d (since epoch start %v, weight %v, offset %v)", s, newSteps[0], m.phase, now.Sub(m.t0), w, off)
				}
				if newSteps[0] != off {
					x.Failf("pll-step-not-measured-offset", "Step(%v) for measured offset %v", newSteps[0], off)
				}
			} else if wantStep {
				x.Failf("pll-missing-step", "update %d: waiting for step, %v after epoch start, weight %v, offset %v: no Step", s, now.Sub(m.t0), w, off)
			}
			if len(newAdjs) == 1 {
				a := newAdjs[0]
				if !mayAdjust {
					x.Failf("pll-adjust-outside-tracking", "update %d: Adjust(%v,%v,%v) before tracking", s, a.Offset, a.Duration, a.Frequency)
				}
				if a.Duration <= 0 {
					x.Failf("pll-adjust-nonpositive-duration", "Adjust duration %v", a.Duration)
				}
				if math.IsNaN(a.Frequency) || math.IsInf(a.Frequency, 0) {
					x.Failf("pll-adjust-nonfinite-frequency", "Adjust frequency %v", a.Frequency)
				}
				whole := time.Duration(math.Ceil(elapsed.Seconds())) * time.Second
				if a.Duration != whole {
					x.Failf("pll-adjust-duration-not-whole-seconds", "Adjust duration %v, elapsed %v", a.Duration, elapsed)
				}
				lim := time.Duration(500e-6*float64(whole)) + 1
				if a.Offset.Abs() > lim {
					x.Failf("pll-slew-exceeds-500ppm", "Adjust offset %v over %v exceeds 500 ppm (%v)", a.Offset, a.Duration, lim)
				}
				if off != 0 && a.Offset != 0 && (off > 0) != (a.Offset > 0) {
					x.Failf("pll-slew-wrong-direction", "measured offset %v, slew %v", off, a.Offset)
				}
			} else if mayAdjust && elapsed > 0 {
				x.Failf("pll-missing-adjust", "update %d: tracking, %v elapsed, no Adjust", s, elapsed)
			}
			x.Observe(m.phase, len(newSteps), len(newAdjs))
		}
	}
}

func TestCheck(t *testing.T) {
	mc.Main(t, "C19", func(r *mc.Run) {
		for _, bumps := range []bool{true, false} {
			tag := fmt.Sprintf("stepbumps=%v", bumps)
			// every pair of updates over the full alphabet, from each phase of the start-up sequence
			for nominal := 1; nominal <= 5; nominal++ {
				r.Explore(mc.Config{Name: fmt.Sprintf("full2/after%d/%s", nominal, tag), Bound: -1}, program(nominal, 2, bumps))
			}
			// long histories within a deviation bound of the nominal start-up + tracking sequence
			r.Explore(mc.Config{Name: "dev/" + tag, Bound: mc.Pick(r, 3, 4)}, program(1, mc.Pick(r, 6, 7), bumps))
		}
		r.Extra["rule"] = "update = (time step in 9 values incl. 0, 2 s +-1 ns, 6 s +-1 ns, 301 s) x (offset in 11 values up to MaxInt64) x (weight in 10 values incl. 3, 3+ulp, Inf, NaN) x (external epoch change); the clock's Step either bumps the epoch (as SystemClock does) or not; all pairs of updates from each of the 5 phases of the start-up sequence; all histories of 7 (8) updates within 3 (4) deviations of the nominal start-up sequence"
	})
}
