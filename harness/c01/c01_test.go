// C01: the per-round clock correction is bounded whatever the sources report
// (DESIGN.md C01). The real sync.Run loop runs in a synctest bubble with a
// scripted system clock, a recording discipline and scripted sources.
package c01

import (
	"context"
	"errors"
	"fmt"
	"math"
	"math/big"
	"testing"
	"time"

	"example.com/scion-time/core/client"
	"example.com/scion-time/core/measurements"
	"example.com/scion-time/core/sync"

	"verif.local/mc"
	"verif.local/world"
)

type conf struct {
	name     string
	cfg      sync.Config
	driftPPB int64
	ok       bool
	// driftFixed, when non-zero, is what the clock's Drift(interval) returns
	driftFixed time.Duration
}

func (c conf) drift() time.Duration {
	if c.driftFixed != 0 {
		return c.driftFixed
	}
	return time.Duration(int64(c.cfg.SyncInterval) * c.driftPPB / 1_000_000_000)
}

func confs() []conf {
	ulp := func(f float64) float64 { return math.Nextafter(f, 10) }
	d := sync.Config{ReferenceClockImpact: 1.25, PeerClockImpact: 2.5, PeerClockCutoff: 50 * time.Microsecond, SyncTimeout: 500 * time.Millisecond, SyncInterval: time.Second}
	mod := func(f func(c *sync.Config)) sync.Config { c := d; f(&c); return c }
	return []conf{
		{"default", d, 50_000, true, 0},
		{"edge-factors-tiny-drift", mod(func(c *sync.Config) {
			c.ReferenceClockImpact = ulp(1.0)
			c.PeerClockImpact = ulp(ulp(1.0) + 1.0)
			c.PeerClockCutoff = 1
		}), 2, true, 0},
		{"long-interval-zero-cutoff", mod(func(c *sync.Config) {
			c.ReferenceClockImpact, c.PeerClockImpact, c.PeerClockCutoff, c.SyncInterval, c.SyncTimeout = 4, 6, 0, 64*time.Second, 32*time.Second
		}), 500_000, true, 0},
		{"timeout-zero", mod(func(c *sync.Config) { c.SyncTimeout = 0 }), 50_000, true, 0},
		// admissible settings whose bounds are near the ends of the int64 range: the
		// bound of 2^53 ns is the first at which float64 cannot tell b from b+1, and
		// bounds of 5e18 / 7e18 ns put the two contributions 1.2e19 ns apart
		{"bound-2^53", mod(func(c *sync.Config) {
			c.ReferenceClockImpact, c.PeerClockImpact, c.SyncInterval, c.SyncTimeout = 2, 4, time.Duration(1)<<52, time.Second
		}), 0, true, time.Duration(1) << 52},
		{"ref-bound-2^62-peer-bound-2^63", mod(func(c *sync.Config) {
			c.ReferenceClockImpact, c.PeerClockImpact, c.SyncInterval, c.SyncTimeout = 2, 4, time.Duration(1)<<61, time.Second
		}), 0, true, time.Duration(1) << 61},
		{"bounds-5e18-7e18", mod(func(c *sync.Config) {
			c.ReferenceClockImpact, c.PeerClockImpact, c.SyncInterval, c.SyncTimeout = 5, 7, time.Duration(1e18), time.Second
		}), 0, true, time.Duration(1e18)},
		// settings that would void the bound: refused at start-up
		{"bad-ref-factor-1", mod(func(c *sync.Config) { c.ReferenceClockImpact = 1.0 }), 50_000, false, 0},
		{"bad-ref-factor-below-1", mod(func(c *sync.Config) { c.ReferenceClockImpact = math.Nextafter(1.0, 0) }), 50_000, false, 0},
		{"bad-ref-factor-negative", mod(func(c *sync.Config) { c.ReferenceClockImpact = -3 }), 50_000, false, 0},
		{"bad-peer-factor-1", mod(func(c *sync.Config) { c.PeerClockImpact = 1.0; c.ReferenceClockImpact = 1.0000001 }), 50_000, false, 0},
		{"bad-peer-minus-1-equals-ref", mod(func(c *sync.Config) { c.PeerClockImpact = 2.25 }), 50_000, false, 0},
		{"bad-peer-minus-1-below-ref", mod(func(c *sync.Config) { c.PeerClockImpact = math.Nextafter(2.25, 0) }), 50_000, false, 0},
		{"bad-interval-0", mod(func(c *sync.Config) { c.SyncInterval = 0; c.SyncTimeout = 0 }), 50_000, false, 0},
		{"bad-interval-negative", mod(func(c *sync.Config) { c.SyncInterval = -1; c.SyncTimeout = 0 }), 50_000, false, 0},
		{"bad-timeout-above-half", mod(func(c *sync.Config) { c.SyncTimeout = c.SyncInterval/2 + 1 }), 50_000, false, 0},
		{"bad-timeout-negative", mod(func(c *sync.Config) { c.SyncTimeout = -1 }), 50_000, false, 0},
	}
}

type adj struct{ calls []time.Duration }

func (a *adj) Do(offset time.Duration) { a.calls = append(a.calls, offset) }

const (
	bInTime = iota
	bOther
	bError
	bLate
	bBlock
	bNever
)

type src struct {
	w     *world.World
	name  string
	round *int
	plan  map[int]struct {
		b int
		v time.Duration
	}
	entered int
}

var errSrc = errors.New("source failed")

func (s *src) MeasureClockOffset(ctx context.Context) (time.Time, time.Duration, error) {
	s.entered++
	p := s.plan[*s.round]
	ts := time.Now()
	switch p.b {
	case bError:
		return time.Time{}, 0, errSrc
	case bLate:
		<-ctx.Done()
		return ts, p.v, nil
	case bBlock:
		<-ctx.Done()
		return time.Time{}, 0, ctx.Err()
	case bNever:
		<-s.w.Clock.Done()
		return time.Time{}, 0, errSrc
	}
	return ts, p.v, nil
}

func values(c conf) []time.Duration {
	drift := c.drift()
	sat := func(f float64) time.Duration {
		if f < math.MaxInt64 {
			return time.Duration(f)
		}
		return math.MaxInt64 - 1
	}
	rm := sat(c.cfg.ReferenceClockImpact * float64(drift))
	pm := sat(c.cfg.PeerClockImpact * float64(drift))
	cut := c.cfg.PeerClockCutoff
	vs := []time.Duration{0, 1, -1, cut, -cut, cut + 1, -(cut + 1), rm, -rm, rm + 1, -(rm + 1), pm, -pm, pm + 1, -(pm + 1), 1 << 62, -(1 << 62), math.MaxInt64, math.MinInt64}
	var out []time.Duration
	seen := map[time.Duration]bool{}
	for _, v := range vs {
		if !seen[v] {
			seen[v] = true
			out = append(out, v)
		}
	}
	return out
}

func sgn(d time.Duration) float64 {
	switch {
	case d < 0:
		return -1
	case d > 0:
		return 1
	}
	return 0
}

// reference model of one round in which every source answered in time, in exact
// arithmetic: bounds are the real products factor x drift, comparisons and the
// midpoint are computed without rounding or wrap-around
func model(c conf, drift time.Duration, refs, peers []time.Duration) time.Duration {
	bound := func(f float64) *big.Rat {
		b := new(big.Rat).SetFloat64(f)
		return b.Mul(b, new(big.Rat).SetInt64(int64(drift)))
	}
	refMax, peerMax := bound(c.cfg.ReferenceClockImpact), bound(c.cfg.PeerClockImpact)
	agg := func(vs []time.Duration) time.Duration {
		ms := make([]measurements.Measurement, len(vs))
		for i, v := range vs {
			ms[i].Offset = v
		}
		return measurements.FaultTolerantMidpoint(ms).Offset
	}
	clamp := func(v time.Duration, max *big.Rat) time.Duration {
		a := new(big.Int).Abs(big.NewInt(int64(v)))
		if new(big.Rat).SetInt(a).Cmp(max) <= 0 {
			return v
		}
		fl := new(big.Int).Quo(max.Num(), max.Denom()) // floor of a positive bound
		if !fl.IsInt64() {
			return v // the bound is beyond the int64 range: nothing to clamp
		}
		return time.Duration(sgn(v)) * time.Duration(fl.Int64())
	}
	var r, p time.Duration
	refOk, peerOk := len(refs) > 0, false
	if refOk {
		r = clamp(agg(refs), refMax)
	}
	if len(peers) > 0 {
		p = agg(append(append([]time.Duration{}, peers...), 0)) // the local clock takes part as a peer reporting 0
		if p.Abs() > c.cfg.PeerClockCutoff {
			peerOk = true
			p = clamp(p, peerMax)
		}
	}
	switch {
	case refOk && peerOk:
		d := new(big.Int).Sub(big.NewInt(int64(p)), big.NewInt(int64(r)))
		d.Quo(d, big.NewInt(2))
		return time.Duration(d.Add(d, big.NewInt(int64(r))).Int64())
	case refOk:
		return r
	case peerOk:
		return p
	}
	return 0
}

func program(r *mc.Run, c conf, nref, npeer, rounds int, freeValues bool) func(x *mc.X) {
	vals := values(c)
	return func(x *mc.X) {
		world.Run(r.T, x, func(w *world.World) {
			w.Clock.DriftPPB = c.driftPPB
			w.Clock.DriftFixed = c.driftFixed
			round := 0
			mk := func(n int, tag string) ([]*src, []client.ReferenceClock) {
				ss := make([]*src, n)
				rs := make([]client.ReferenceClock, n)
				for i := range ss {
					ss[i] = &src{w: w, name: fmt.Sprintf("%s%d", tag, i), round: &round, plan: map[int]struct {
						b int
						v time.Duration
					}{}}
					rs[i] = ss[i]
				}
				return ss, rs
			}
			refS, refC := mk(nref, "ref")
			peerS, peerC := mk(npeer, "peer")
			a := &adj{}
			drift := w.Clock.Drift(c.cfg.SyncInterval)
			capOf := func(f float64) time.Duration {
				if b := math.Floor(f * float64(drift)); b < math.MaxInt64 {
					return time.Duration(b)
				}
				return math.MaxInt64 // a bound beyond the int64 range bounds nothing
			}
			refCap, peerCap := capOf(c.cfg.ReferenceClockImpact), capOf(c.cfg.PeerClockImpact)
			var cost func(int) int
			if freeValues {
				cost = func(int) int { return 0 }
			}
			plan := func(ss []*src, tag string) (vals_ []time.Duration, clean bool) {
				if len(ss) == 0 {
					return nil, true
				}
				g := vals[x.ChooseCost(len(vals), tag+"-value", cost)]
				clean = true
				for _, s := range ss {
					b := x.Choose(6, s.name)
					v := g
					if b == bOther {
						v = vals[x.Choose(len(vals), s.name+"-value")]
						b = bInTime
					}
					s.plan[round] = struct {
						b int
						v time.Duration
					}{b, v}
					if b != bInTime {
						clean = false
					}
					vals_ = append(vals_, v)
					x.Logf("round %d %s: behaviour %d value %d", round, s.name, b, int64(v))
				}
				return
			}
			allClean := true
			var th *world.Thread
			for round = 0; round < rounds; round++ {
				rv, rclean := plan(refS, "ref")
				pv, pclean := plan(peerS, "peer")
				if round == 0 {
					th = w.Go("sync.Run", func() { sync.Run(w.Log, c.cfg, w.Clock, a, refC, peerC) })
				} else {
					time.Sleep(c.cfg.SyncInterval) // the loop's Sleep ends
				}
				w.Settle()
				if len(w.Panics) > 0 || th.Finished() {
					break
				}
				if len(w.Clock.Sleeps) <= round {
					// some source is slow: let the round's timeout pass
					time.Sleep(c.cfg.SyncTimeout)
					w.Settle()
				}
				x.Transitions++
				if len(w.Clock.Sleeps) != round+1 {
					x.Failf("round-not-finished-by-timeout", "round %d: %d Sleep calls after the timeout passed", round, len(w.Clock.Sleeps))
				}
				if len(a.calls) != round+1 {
					x.Failf("not-exactly-one-correction-per-round", "after round %d the discipline received %d corrections", round, len(a.calls))
				}
				if w.Clock.Sleeps[round] != c.cfg.SyncInterval {
					x.Failf("sleep-not-interval", "Sleep(%v)", w.Clock.Sleeps[round])
				}
				corr := a.calls[round]
				bound := refCap
				switch {
				case nref == 0 && npeer == 0:
					bound = 0
				case npeer > 0:
					bound = peerCap
				}
				if corr.Abs() > bound {
					x.Failf("correction-exceeds-bound", "round %d: correction %d ns, bound %d ns (refs %v peers %v)", round, int64(corr), int64(bound), rv, pv)
				}
				allClean = allClean && rclean && pclean
				if allClean {
					if want := model(c, drift, rv, pv); corr != want {
						x.Failf("correction-differs-from-model", "round %d: correction %d ns, model %d ns (refs %v peers %v, caps %d/%d, cutoff %d)", round, int64(corr), int64(want), rv, pv, int64(refCap), int64(peerCap), int64(c.cfg.PeerClockCutoff))
					}
				}
				x.Observe(int64(corr))
			}
			if len(w.Panics) > 0 {
				p := w.Panics[0]
				f := mc.PanicFailure(p.Value, p.Stack)
				x.Failf(f.Signature, "%s", f.Message)
			}
		})
	}
}

func startup(r *mc.Run, c conf) {
	r.Explore(mc.Config{Name: "startup/" + c.name, Bound: -1, ShardN: 1}, func(x *mc.X) {
		world.Run(r.T, x, func(w *world.World) {
			w.Clock.DriftPPB = c.driftPPB
			w.Clock.DriftFixed = c.driftFixed
			round := 0
			s := &src{w: w, name: "ref0", round: &round, plan: map[int]struct {
				b int
				v time.Duration
			}{0: {bInTime, 5}}}
			a := &adj{}
			th := w.Go("sync.Run", func() { sync.Run(w.Log, c.cfg, w.Clock, a, []client.ReferenceClock{s}, []client.ReferenceClock{s}) })
			w.Settle()
			x.Transitions++
			refused := len(w.Panics) > 0
			if c.ok && refused {
				x.Failf("admissible-config-refused", "config %s: %v", c.name, w.Panics[0].Value)
			}
			if !c.ok {
				if !refused {
					x.Failf("inadmissible-config-accepted", "config %s (%+v) was not refused at start-up", c.name, c.cfg)
				}
				if s.entered != 0 || len(a.calls) != 0 {
					x.Failf("inadmissible-config-ran", "config %s: %d measurements, %d corrections before the refusal", c.name, s.entered, len(a.calls))
				}
			}
			_ = th
			x.Observe(refused)
		})
	})
}

func TestCheck(t *testing.T) {
	mc.Main(t, "C01", func(r *mc.Run) {
		for _, c := range confs() {
			if r.Mine() || r.Replaying() {
				startup(r, c)
			}
			if !c.ok || c.cfg.SyncTimeout == 0 {
				// with a zero timeout results race with the (already expired)
				// deadline inside one select: admissible, but nothing beyond
				// start-up acceptance is determined
				continue
			}
			for _, nref := range []int{0, 1, 2, 4} {
				for _, npeer := range []int{0, 1, 3} {
					tag := fmt.Sprintf("%s/ref%d/peer%d", c.name, nref, npeer)
					// layer 1: one round, all group values, every single-source behaviour
					r.Explore(mc.Config{Name: "l1/" + tag, Bound: mc.Pick(r, 2, 3)}, program(r, c, nref, npeer, 1, true))
					// layer 2: multi-round histories within a deviation bound
					r.Explore(mc.Config{Name: "l2/" + tag, Bound: mc.Pick(r, 3, 4)}, program(r, c, nref, npeer, mc.Pick(r, 3, 4), false))
				}
			}
		}
		r.Extra["rule"] = "6 admissible configurations (default, edge factors with tiny drift, long interval with zero cutoff, a bound of exactly 2^53 ns, a reference bound of 2^62 ns with the peer bound at 2^63 ns, bounds of 5e18 / 7e18 ns; a seventh, zero timeout, for start-up acceptance only) x {0,1,2,4} reference clocks x {0,1,3} peers; per round a group value per source group from a 19-value alphabet around cutoff / caps / int64 extremes, per source {in time, other value, error, late, blocked until cancelled, never returns}; layer 1: one round, all value pairs, <=2 (3) source deviations; layer 2: 3 (4) rounds within 3 (4) deviations; 10 inadmissible configurations must be refused before any measurement"
	})
}
