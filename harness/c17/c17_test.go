// C17: offset filters implement their selection rule and reset cleanly
// (DESIGN.md C17). Lucky-packet filter against a reference model over all
// histories; Ntimed filter: raw output on the first three samples and inside
// its own reported bounds, and a differential reset oracle.
package c17

import (
	"context"
	"fmt"
	"log/slog"
	"slices"
	"testing"
	"time"

	"example.com/scion-time/core/client"
	"example.com/scion-time/net/ntp"

	"verif.local/mc"
	"verif.local/world"
)

var base = time.Date(2025, 6, 1, 0, 0, 0, 0, time.UTC)

// stamps builds the four timestamps of an exchange with the given true offset and round-trip delay.
func stamps(i int, off, rtd time.Duration) (t0, t1, t2, t3 time.Time) {
	t0 = base.Add(time.Duration(i) * time.Second)
	t1 = t0.Add(off + rtd/2)
	t2 = t1
	t3 = t0.Add(rtd)
	return
}

type sample struct{ off, rtd time.Duration }

func refLucky(win []sample, pick int) time.Duration {
	w := slices.Clone(win)
	if pick < len(w) {
		slices.SortFunc(w, func(a, b sample) int { return int(a.rtd - b.rtd) })
		w = w[:pick]
	}
	slices.SortFunc(w, func(a, b sample) int { return int(a.off - b.off) })
	n := len(w)
	if n%2 == 1 {
		return w[n/2].off
	}
	return w[n/2-1].off + (w[n/2].off-w[n/2-1].off)/2
}

type luckyIn struct {
	Cap, Pick int
	Offs      []int
	Perm      []int
	Reset     int
}

func lucky(r *mc.Run) {
	offAlpha := []time.Duration{-time.Millisecond, 0, 2 * time.Millisecond, time.Millisecond, -2 * time.Millisecond}
	maxCap := mc.Pick(r, 3, 4)
	nOff := mc.Pick(r, 3, 3)
	// zero value: raw offset
	{
		var f client.LuckyPacketFilter
		for i, o := range offAlpha {
			t0, t1, t2, t3 := stamps(i, o, 4*time.Millisecond)
			if got := f.Do(t0, t1, t2, t3); got != o {
				r.Fail("lucky", "lucky-unconfigured-not-raw", fmt.Sprintf("zero-value filter returned %v for raw offset %v", got, o), luckyIn{})
			}
			r.Evals++
		}
	}
	type luckyCfg struct{ capN, L, nOff int }
	var cfgs []luckyCfg
	for capN := 1; capN <= maxCap; capN++ {
		cfgs = append(cfgs, luckyCfg{capN, capN + 2, nOff})
	}
	// long histories: more than cap samples on both sides of a reset
	cfgs = append(cfgs, luckyCfg{1, 4, 3}, luckyCfg{2, 6, 2})
	if r.Thorough() {
		cfgs = append(cfgs, luckyCfg{3, 8, 1})
	}
	for _, cfg := range cfgs {
		capN, nOff := cfg.capN, cfg.nOff
		for pick := 1; pick <= capN+1; pick++ {
			L := cfg.L
			idx := make([]int, L)
			for i := range idx {
				idx[i] = i
			}
			perms := [][]int{}
			var gen func(k int)
			gen = func(k int) {
				if k == L {
					perms = append(perms, slices.Clone(idx))
					return
				}
				for i := k; i < L; i++ {
					idx[k], idx[i] = idx[i], idx[k]
					gen(k + 1)
					idx[k], idx[i] = idx[i], idx[k]
				}
			}
			gen(0)
			offs := make([]int, L)
			var rec func(k int)
			rec = func(k int) {
				if k < L {
					for v := 0; v < nOff; v++ {
						offs[k] = v
						rec(k + 1)
					}
					return
				}
				if !r.Mine() {
					return
				}
				for _, perm := range perms {
					for reset := -1; reset <= L; reset++ {
						f := client.NewLuckyPacketFilter(capN, pick)
						k := min(pick, capN)
						var win []sample
						for i := 0; i < L; i++ {
							if i == reset {
								f.Reset()
								win = win[:0]
							}
							sm := sample{offAlpha[offs[i]], time.Duration(2*(perm[i]+1)) * time.Millisecond}
							t0, t1, t2, t3 := stamps(i, sm.off, sm.rtd)
							got := f.Do(t0, t1, t2, t3)
							win = append(win, sm)
							if len(win) > capN {
								win = win[1:]
							}
							want := refLucky(win, k)
							r.Evals++
							if got != want {
								r.Fail("lucky", "lucky-selection-rule", fmt.Sprintf("cap=%d pick=%d offsets=%v delay-ranks=%v reset-before=%d: sample %d returned %v, median of the %d lowest-delay among the last %d is %v", capN, pick, offs, perm, reset, i, got, k, capN, want),
									luckyIn{capN, pick, slices.Clone(offs), slices.Clone(perm), reset})
							}
						}
						if reset == L {
							f.Reset()
						}
						r.Distinct++
					}
				}
			}
			rec(0)
		}
	}
}

// --- Ntimed

type capture struct {
	lo, hi, loLim, hiLim float64
	n                    int
}

func (c *capture) Enabled(context.Context, slog.Level) bool { return true }
func (c *capture) Handle(_ context.Context, rec slog.Record) error {
	if rec.Message != "filtered response" {
		return nil
	}
	c.n++
	rec.Attrs(func(a slog.Attr) bool {
		switch a.Key {
		case "lo [s]":
			c.lo = a.Value.Float64()
		case "hi [s]":
			c.hi = a.Value.Float64()
		case "loLim [s]":
			c.loLim = a.Value.Float64()
		case "hiLim [s]":
			c.hiLim = a.Value.Float64()
		}
		return true
	})
	return nil
}
func (c *capture) WithAttrs([]slog.Attr) slog.Handler { return c }
func (c *capture) WithGroup(string) slog.Handler      { return c }

// kinds of a sample: deviation of the c->s and s->c legs from nominal (10 ms each way, offset 3 ms)
var legDev = []time.Duration{0, 40 * time.Millisecond, -6 * time.Millisecond, 150 * time.Microsecond, -150 * time.Microsecond}

// ntimedOff is the true clock offset of the history being run: small against the
// one-way delay, or larger than it in either direction (as after a clock step).
var ntimedOff = 3 * time.Millisecond

func ntimedSample(i, kind, nleg int) (t0, t1, t2, t3 time.Time) {
	a, b := legDev[kind/nleg], legDev[kind%nleg]
	off := ntimedOff
	fwd := 10*time.Millisecond + a
	bwd := 10*time.Millisecond + b
	t0 = base.Add(time.Duration(i) * time.Second)
	t1 = t0.Add(fwd + off)
	t2 = t1.Add(50 * time.Microsecond)
	t3 = t2.Add(bwd - off)
	return
}

type ntIn struct {
	H1, H2 []int
	How    string
}

func ntimed(r *mc.Run) {
	nleg := mc.Pick(r, 3, 4)
	nk := nleg * nleg
	l1, l2 := mc.Pick(r, 3, 4), 4
	clk := &world.Clock{}
	clk.Fixed = func() time.Time { return base }
	world.UseClock(clk)
	run := func(h []int, f *client.NtimedFilter, cp *capture, startIdx int, in ntIn) []time.Duration {
		var out []time.Duration
		for i, k := range h {
			t0, t1, t2, t3 := ntimedSample(startIdx+i, k, nleg)
			got := f.Do(t0, t1, t2, t3)
			out = append(out, got)
			raw := ntp.ClockOffset(t0, t1, t2, t3)
			r.Evals++
			if i < 3 && (got-raw).Abs() > 2 {
				r.Fail("ntimed", "ntimed-early-sample-not-raw", fmt.Sprintf("history %v: sample %d since reset returned %v, raw offset %v", in, i+1, got, raw), in)
			}
			if cp != nil && cp.n > 0 && !(cp.lo < cp.loLim) && !(cp.hi > cp.hiLim) && (got-raw).Abs() > 2 {
				r.Fail("ntimed", "ntimed-inside-bounds-not-raw", fmt.Sprintf("history %v: sample %d inside the reported bounds [%g,%g] (lo=%g hi=%g) returned %v, raw %v", in, i+1, cp.loLim, cp.hiLim, cp.lo, cp.hi, got, raw), in)
			}
			if (raw > 0) != (got > 0) && raw.Abs() > time.Millisecond && i < 3 {
				r.Fail("ntimed", "ntimed-wrong-sign", fmt.Sprintf("raw %v returned %v", raw, got), in)
			}
		}
		return out
	}
	h1 := make([]int, 0, l1)
	h2 := make([]int, l2)
	var rec2 func(k int)
	var cur1 []int
	rec2 = func(k int) {
		if k < l2 {
			for v := 0; v < nk; v++ {
				h2[k] = v
				rec2(k + 1)
			}
			return
		}
		// reference: fresh filter on H2
		clk.EpochV = 0
		in := ntIn{slices.Clone(cur1), slices.Clone(h2), "fresh"}
		cp := &capture{}
		fresh := client.NewNtimedFilter(slog.New(cp))
		want := run(h2, fresh, cp, len(cur1), in)
		for _, how := range []string{"reset", "epoch"} {
			in.How = how
			clk.EpochV = 0
			cp2 := &capture{}
			f := client.NewNtimedFilter(slog.New(cp2))
			run(cur1, f, cp2, 0, in)
			if how == "reset" {
				f.Reset()
			} else {
				clk.EpochV++
			}
			got := run(h2, f, cp2, len(cur1), in)
			r.Distinct++
			if !slices.Equal(got, want) {
				r.Fail("ntimed", "ntimed-history-leaks-through-"+how, fmt.Sprintf("H1=%v then %s then H2=%v: outputs %v, fresh filter on H2 gives %v", cur1, how, h2, got, want), in)
			}
		}
	}
	var rec1 func(k, l int)
	rec1 = func(k, l int) {
		if k == l {
			if !r.Mine() {
				return
			}
			cur1 = h1[:l]
			rec2(0)
			return
		}
		for v := 0; v < nk; v++ {
			h1 = append(h1[:k], v)
			rec1(k+1, l)
		}
	}
	for _, off := range []time.Duration{3 * time.Millisecond, 50 * time.Millisecond, -50 * time.Millisecond} {
		ntimedOff = off
		for l := 1; l <= l1; l++ {
			rec1(0, l)
		}
	}
	ntimedOff = 3 * time.Millisecond
	// long histories without reset: (a)/(b) beyond the fourth sample
	long := mc.Pick(r, 6, 7)
	h := make([]int, long)
	var recL func(k int)
	recL = func(k int) {
		if k == 2 && !r.Mine() {
			return
		}
		if k < long {
			for v := 0; v < nk; v++ {
				h[k] = v
				recL(k + 1)
			}
			return
		}
		clk.EpochV = 0
		cp := &capture{}
		f := client.NewNtimedFilter(slog.New(cp))
		run(h, f, cp, 0, ntIn{H1: slices.Clone(h), How: "long"})
		r.Distinct++
	}
	recL(0)
}

func TestCheck(t *testing.T) {
	mc.Main(t, "C17", func(r *mc.Run) {
		lucky(r)
		ntimed(r)
		if r.Replaying() {
			for _, v := range r.Rep.Violations {
				fmt.Printf("REPLAY-VERDICT: FAIL signature=%q\n%s\n", v.Signature, v.Message)
				t.Fail()
			}
			if len(r.Rep.Violations) == 0 {
				fmt.Println("REPLAY-VERDICT: PASS")
			}
			return
		}
		r.Extra["n_transitions"] = r.Evals
		r.Extra["n_states"] = r.Distinct
		r.Sample(luckyIn{3, 2, []int{0, 2, 1, 0, 2}, []int{3, 0, 4, 1, 2}, 2})
		r.Sample(ntIn{[]int{1, 0, 4}, []int{0, 0, 2, 0}, "epoch"})
		r.Extra["rule"] = "lucky packet: capacities 1..3 (4), pick 1..cap+1, histories of cap+2 samples over 3 offsets x all delay-rank permutations x reset at every position (or none), plus histories of 2*cap+2 samples for cap 1 and 2 (3 thorough) so that more than cap samples lie on both sides of a reset, compared with the reference model after every sample; Ntimed: all H1 (<=3 (4) samples) x H2 (4 samples) over 9 (16) sample kinds x 3 true offsets (small / larger than the one-way delay, both signs) x {explicit reset, epoch change} against a fresh filter on H2, plus all histories of 6 (7) samples for the raw-output rules; distinct = distinct histories"
	})
}
