// C11: NTS cookie lifecycle - single use, pool capped at eight, requests
// always fit (DESIGN.md C11). The real IPClient with NTS talks to the real
// IP listener; keys and the initial pool come from a real in-bubble key
// exchange with the repository's handler. The explorer owns loss and time.
package c11

import (
	"bytes"
	"context"
	"fmt"
	"net"
	"net/netip"
	"testing"
	"time"

	"example.com/scion-time/core/client"
	"example.com/scion-time/core/server"
	"example.com/scion-time/net/ntp"
	"example.com/scion-time/net/nts"
	"example.com/scion-time/net/ntske"
	"example.com/scion-time/net/udp"

	"github.com/scionproto/scion/pkg/snet"

	"verif.local/kit"
	"verif.local/mc"
	"verif.local/shim/vnet"
	"verif.local/world"
)

var steps = []time.Duration{time.Second, 23 * time.Hour, 25 * time.Hour, 49 * time.Hour, 73 * time.Hour}

func pad4(n int) int { return (n + 3) &^ 3 }

func program(r *mc.Run, interleaved bool, calls int, overSCION bool) func(x *mc.X) {
	return func(x *mc.X) {
		world.Run(r.T, x, func(w *world.World) {
			server.VerifResetTSS()
			nw := kit.NewNTSWorld(w)
			c := &client.IPClient{Log: w.Log, InterleavedMode: interleaved}
			c.Auth.Enabled = true
			c.Auth.NTSKEFetcher = kit.NewFetcher(w)
			f := &c.Auth.NTSKEFetcher
			// SCION: the same deployment with the SCION listener and client; the key
			// exchange still runs over the TLS transport (QUIC is outside the explored system)
			var sw *kit.SCIONWorld
			sc := &client.SCIONClient{Log: w.Log, InterleavedMode: interleaved}
			if overSCION {
				sw = kit.NewSCIONWorld(w, kit.SrvHost, false, nw.Provider)
				nw.NTPPort = kit.SrvPort
				sc.Auth.NTSEnabled = true
				sc.Auth.NTSKEFetcher = kit.NewFetcher(w)
				f = &sc.Auth.NTSKEFetcher
			}
			spath := kit.PathSpec{Kind: "scion", Segs: []int{2, 2}}.SnetPath(kit.CliIA, kit.SrvIA, net.UDPAddrFromAddrPort(kit.Router))
			ntsPayload := func(d *vnet.Datagram) []byte {
				if !overSCION {
					return d.Data
				}
				pr, err := kit.Parse(d.Data)
				if err != nil || pr.UDP == nil {
					x.Failf("datagram-undecodable", "%v", err)
				}
				return pr.UDP.Payload
			}
			sentCookies := map[string]int{}
			// issued: a time not after the moment each cookie in the client's pool was
			// issued (start of the call in which it first appeared); a cookie is sealed
			// under a key generated at most 24 h earlier that stays valid for 72 h
			issued := map[string]time.Time{}
			noteIssued := func(callStart time.Time) {
				for _, ck := range f.VerifData().Cookie {
					if _, ok := issued[string(ck)]; !ok {
						issued[string(ck)] = callStart
					}
				}
			}
			seenReq := 0
			lastLoss := 0
			lossFree := true
			exch := 0
			for call := 0; call < calls; call++ {
				dt := steps[x.Choose(len(steps), "step")]
				if call > 0 {
					time.Sleep(dt)
					if dt > time.Second {
						lossFree = false // cookies may have expired meanwhile
					}
				}
				ctx, cancel := context.WithTimeout(context.Background(), time.Second)
				deadline := time.Now().Add(time.Second)
				callStart := time.Now()
				var err error
				th := w.Go("client", func() {
					if overSCION {
						local := udp.UDPAddr{IA: kit.CliIA, Host: &net.UDPAddr{IP: kit.CliHost.AsSlice()}}
						remote := udp.UDPAddr{IA: kit.SrvIA, Host: &net.UDPAddr{IP: kit.SrvHost.AsSlice(), Port: kit.SrvPort}}
						_, _, err = client.MeasureClockOffsetSCION(ctx, w.Log, []*client.SCIONClient{sc}, local, remote, []snet.Path{spath})
						return
					}
					_, _, err = client.MeasureClockOffsetIP(ctx, w.Log, c, &net.UDPAddr{IP: net.IPv4(10, 0, 0, 2)}, &net.UDPAddr{IP: net.IPv4(10, 0, 0, 1), Port: 123})
				})
				for {
					w.Settle()
					if len(w.Panics) > 0 {
						p := w.Panics[0]
						fl := mc.PanicFailure(p.Value, p.Stack)
						x.Failf(fl.Signature, "thread %s at pool level %d after %d exchanges: %s", p.Thread, len(f.VerifData().Cookie), exch, fl.Message)
					}
					if th.Finished() {
						break
					}
					var sock *vnet.UDPConn
					for _, sk := range w.Net.Open() {
						if sk != nw.SrvSock && (sw == nil || (sk != sw.Svc && sk != sw.EH)) && !sk.Closed() && sk.Reading.Load() {
							sock = sk
						}
					}
					if sock == nil {
						// key exchange in progress or blocked elsewhere: let time pass
						w.Advance(100 * time.Millisecond)
						if time.Now().After(deadline.Add(10 * time.Second)) {
							x.Failf("harness", "client blocked without a reading socket")
						}
						continue
					}
					all := w.Net.SentSince(seenReq)
					seenReq += len(all)
					var req *vnet.Datagram
					for _, d := range all {
						if d.Sock == sock {
							req = d
						}
					}
					if req == nil {
						time.Sleep(time.Until(deadline) + 1)
						continue
					}
					exch++
					x.Transitions++
					// ---- the request on the wire
					data := f.VerifData() // pool after the cookie of this request was taken
					level := len(data.Cookie) + 1
					var np nts.Packet
					reqPayload := ntsPayload(req)
					if len(reqPayload) > nts.MaxPacketLen {
						x.Failf("request-exceeds-max-packet", "request of %d bytes at pool level %d", len(reqPayload), level)
					}
					if e := nts.DecodePacket(&np, reqPayload); e != nil {
						x.Failf("request-undecodable", "pool level %d: %v", level, e)
					}
					if len(np.Cookies) != 1 {
						x.Failf("request-cookie-count", "pool level %d: request carries %d cookie fields", level, len(np.Cookies))
					}
					wantPH := 8 - level
					maxPH := (nts.MaxPacketLen - (48 + 36 + 40 + 4 + pad4(len(np.Cookies[0].Cookie)))) / (4 + pad4(len(np.Cookies[0].Cookie)))
					if wantPH > maxPH {
						wantPH = maxPH // as many as fit
					}
					if len(np.CookiePlaceholders) != wantPH {
						x.Failf("request-placeholder-count", "pool level %d: %d placeholder fields, want %d", level, len(np.CookiePlaceholders), wantPH)
					}
					ck := string(np.Cookies[0].Cookie)
					noteIssued(callStart)
					if _, ok := issued[ck]; !ok {
						issued[ck] = callStart
					}
					if n, dup := sentCookies[ck]; dup {
						x.Failf("cookie-sent-twice", "the cookie of exchange %d was already sent in exchange %d", exch, n)
					}
					sentCookies[ck] = exch
					// ---- network
					loss := x.ChooseCost(3, "net", func(alt int) int {
						if alt == lastLoss {
							return 0 // continuing a run of losses is one deviation in total
						}
						return 1
					})
					lastLoss = loss
					if loss != 0 {
						lossFree = false
					}
					var replies []*vnet.Datagram
					if loss != 1 {
						if overSCION {
							replies = sw.Send(sw.Svc, kit.Router, req.Data)
						} else {
							replies = nw.ToServer(req)
						}
						seenReq += len(replies)
						if len(w.Panics) > 0 {
							continue
						}
					}
					x.Logf("exchange %d: pool level %d, %d placeholders, net=%d, replies=%d", exch, level, len(np.CookiePlaceholders), loss, len(replies))
					if age := time.Since(issued[ck]); loss != 1 && len(replies) != 1 && age < 48*time.Hour-time.Minute {
						x.Failf("request-with-valid-cookie-not-answered", "exchange %d: the request carried a cookie issued at most %v ago (usable for two days) and reached the server: %d replies", exch, age, len(replies))
					}
					// ---- the reply
					for _, rp := range replies {
						rpPayload := ntsPayload(rp)
						if len(rpPayload) > nts.MaxPacketLen {
							x.Failf("reply-exceeds-max-packet", "reply of %d bytes", len(rpPayload))
						}
						var rpk nts.Packet
						var scratch ntske.Fetcher
						e := nts.DecodePacket(&rpk, rpPayload)
						if e == nil {
							e = nts.ProcessResponse(rpPayload, data.S2cKey, &scratch, &rpk, np.UniqueID.ID)
						}
						if e != nil {
							x.Failf("reply-not-authenticable", "reply to a request at pool level %d (%d bytes): %v", level, len(rpPayload), e)
						}
						got := scratch.VerifData().Cookie
						if len(got) != 1+len(np.CookiePlaceholders) {
							x.Failf("reply-cookie-count", "request asked for %d cookies, reply carries %d", 1+len(np.CookiePlaceholders), len(got))
						}
						seen := map[string]bool{}
						for i, g := range got {
							if seen[string(g)] || sentCookies[string(g)] != 0 {
								x.Failf("reply-cookie-not-fresh", "cookie %d of the reply was seen before", i)
							}
							seen[string(g)] = true
							var ec ntske.EncryptedServerCookie
							if e := ec.Decode(g[:124]); e != nil {
								x.Failf("reply-cookie-undecodable", "%v", e)
							}
							key, ok := nw.Provider.Get(int(ec.ID))
							if !ok {
								x.Failf("reply-cookie-key-not-valid", "cookie %d sealed under key %d which is not valid now", i, ec.ID)
							}
							sc, e := ec.Decrypt(key.Value)
							if e != nil || !bytes.Equal(sc.C2S, data.C2sKey) || !bytes.Equal(sc.S2C, data.S2cKey) || sc.Algo != data.Algo {
								x.Failf("reply-cookie-wrong-session", "cookie %d does not open to the session keys (%v)", i, e)
							}
						}
						var hdr ntp.Packet
						ntp.DecodePacket(&hdr, rpPayload)
					}
					if loss == 0 && len(replies) == 1 {
						poolBefore := len(f.VerifData().Cookie)
						rd := *replies[0]
						rd.RxTime = w.Clock.Peek()
						if overSCION {
							rd.From = kit.Router
						}
						sock.Deliver(&rd)
						w.Settle()
						poolAfter := len(f.VerifData().Cookie)
						for _, d := range w.Net.SentSince(seenReq) {
							if d.Sock != nw.SrvSock && d.Sock != sock && (sw == nil || (d.Sock != sw.Svc && d.Sock != sw.EH)) {
								poolAfter++ // the client already took a cookie for its next attempt
							}
						}
						if poolAfter < level || poolAfter > 8 || poolAfter < poolBefore {
							x.Failf("pool-accounting", "pool level %d before the exchange, %d after the authenticated response", level, poolAfter)
						}
						if lossFree && poolAfter != 8 {
							x.Failf("pool-not-eight-loss-free", "loss-free operation, pool is %d after exchange %d", poolAfter, exch)
						}
					} else {
						time.Sleep(time.Until(deadline) + 1)
					}
				}
				cancel()
				noteIssued(callStart)
				x.Observe(err == nil, len(f.VerifData().Cookie), nw.KEConns)
				x.Logf("call %d: err=%v pool=%d key exchanges=%d", call, err, len(f.VerifData().Cookie), nw.KEConns)
			}
		})
	}
}

// serverSide: requests a third-party client may send (1 cookie, 0..7
// placeholders with short or full-size bodies, unique identifiers of 32..400 bytes) straight to the listener.
func serverSide(r *mc.Run) func(x *mc.X) {
	return func(x *mc.X) {
		world.Run(r.T, x, func(w *world.World) {
			server.VerifResetTSS()
			nw := kit.NewNTSWorld(w)
			sess := &kit.Session{C2S: bytes.Repeat([]byte{7}, 32), S2C: bytes.Repeat([]byte{9}, 32), Provider: nw.Provider}
			nph := x.Choose(8, "placeholders")
			short := x.Choose(2, "placeholder-body") == 1
			ck := sess.Cookie()
			var pkt nts.Packet
			// the identifier is echoed in the reply and takes room from the cookies
			idLen := []int{32, 36, 40, 64, 128, 400}[x.Choose(6, "unique-id-length")]
			pkt.UniqueID.ID = bytes.Repeat([]byte{3}, idLen)
			pkt.Cookies = []nts.Cookie{{Cookie: ck}}
			body := make([]byte, len(ck))
			if short {
				body = make([]byte, 8)
			}
			for i := 0; i < nph; i++ {
				pkt.CookiePlaceholders = append(pkt.CookiePlaceholders, nts.CookiePlaceholder{Cookie: body})
			}
			pkt.Auth.Key = sess.C2S
			if 48+4+idLen+128+nph*(4+len(body))+40 > nts.MaxPacketLen {
				return // cannot be encoded into one packet
			}
			buf := kit.ClientHeader(w.Clock.Peek())
			nts.EncodePacket(&buf, &pkt)
			from := netip.MustParseAddrPort("10.0.0.77:5555")
			replies := nw.ToServer(&vnet.Datagram{From: from, To: nw.SrvAddr, Data: buf})
			w.CheckPanics()
			x.Transitions++
			if (nts.MaxPacketLen-48-(4+(idLen+3)&^3)-40)/128 < 1 && len(replies) == 0 {
				return // no reply with a cookie fits into a packet: the request is refused
			}
			if len(replies) != 1 {
				x.Failf("no-reply-to-authenticated-request", "%d replies to a request with %d placeholders and a %d byte identifier", len(replies), nph, idLen)
			}
			rp := replies[0]
			if len(rp.Data) > nts.MaxPacketLen {
				x.Failf("reply-exceeds-max-packet", "reply of %d bytes", len(rp.Data))
			}
			var rpk nts.Packet
			var scratch ntske.Fetcher
			e := nts.DecodePacket(&rpk, rp.Data)
			if e == nil {
				e = nts.ProcessResponse(rp.Data, sess.S2C, &scratch, &rpk, pkt.UniqueID.ID)
			}
			if e != nil {
				x.Failf("reply-not-authenticable", "reply to 1 cookie + %d placeholders (%d bytes): %v", nph, len(rp.Data), e)
			}
			got := len(scratch.VerifData().Cookie)
			fits := (nts.MaxPacketLen - 48 - (4 + (idLen+3)&^3) - 40) / 128
			want := min(1+nph, fits)
			if got != want {
				x.Failf("reply-cookie-count", "request asked for %d cookies, %d fit, reply carries %d", 1+nph, fits, got)
			}
			x.Observe(got, len(rp.Data))
		})
	}
}

func TestCheck(t *testing.T) {
	mc.Main(t, "C11", func(r *mc.Run) {
		for _, il := range []bool{false, true} {
			r.Explore(mc.Config{Name: fmt.Sprintf("ip/interleaved=%v", il), Bound: mc.Pick(r, 3, 4)}, program(r, il, mc.Pick(r, 12, 14), false))
			r.Explore(mc.Config{Name: fmt.Sprintf("scion/interleaved=%v", il), Bound: mc.Pick(r, 2, 3)}, program(r, il, mc.Pick(r, 10, 12), true))
		}
		r.Explore(mc.Config{Name: "server-side", Bound: -1, ShardN: 1}, serverSide(r))
		r.Extra["rule"] = "histories of 12 (14) MeasureClockOffsetIP calls of the real NTS-enabled IPClient (and, with 10 (12) calls within 2 (3) deviations, of the real NTS-enabled SCIONClient against runSCIONServer) against the real listener and key-exchange handler; per exchange {deliver, lose request, lose response} (a run of equal losses is one deviation), between calls a time step in {1s, 23h, 25h, 49h, 73h}; all histories within 3 (4) deviations; every request and reply on the wire is decoded and judged; a delivered request whose cookie was issued less than two days earlier must be answered"
	})
}
