// C03: the offset a client reports is within half the round-trip delay of the
// true offset and its four timestamps belong to one exchange (DESIGN.md C03).
// The real IPClient (basic and interleaved mode) runs over the in-memory
// network against (i) a protocol-conformant reference server and (ii) the
// repository's own runIPServer loop; the explorer owns loss, duplication,
// staleness, delays, clock offsets, port reuse and timestamp availability.
package c03

import (
	"context"
	"fmt"
	"net"
	"net/netip"
	"testing"
	"time"

	"example.com/scion-time/core/client"
	"example.com/scion-time/core/server"
	"example.com/scion-time/net/ntp"
	"example.com/scion-time/net/udp"

	"github.com/scionproto/scion/pkg/snet"

	"verif.local/kit"
	"verif.local/mc"
	"verif.local/shim/vnet"
	"verif.local/world"
)

var (
	// server clock offsets; their differences must not equal the time between two
	// exchanges (gap + delays), or a clock step makes the server stamp two
	// exchanges of one client with the same receive timestamp - an ambiguity
	// inherent in identifying exchanges by timestamp, not a property of the code
	thetas = []time.Duration{0, 1370 * time.Millisecond, -250 * time.Millisecond}
	delays = []time.Duration{3 * time.Millisecond, 0, 1, 40 * time.Millisecond}
	gaps   = []time.Duration{time.Second, 0, 3*time.Second - 1, 3 * time.Second, 3*time.Second + 1, 10 * time.Second}
)

const callTimeout = time.Second

var (
	srvAddr  = netip.MustParseAddrPort("10.0.0.1:123")
	clientIP = net.IPv4(10, 0, 0, 2)
)

type env struct {
	w             *world.World
	x             *mc.X
	s             *kit.Sim
	flt           *kit.RecFilter
	judged        int
	accepted      []*kit.Exch
	lastTx        time.Time // kernel/sw transmit stamp of the last request of the previous call
	real          *realServer
	srvTx         map[int]time.Time
	lastDelivered *kit.Reply
	scion         bool
	sw            *kit.SCIONWorld
	srvLate       *vnet.TxStamp
	srvSends      uint32
	srvTxMode     int // 0: kernel transmit timestamp readable, 1: none, 2: delivered late (after the next reply was sent)
	// reduced: only loss, holding back, port reuse and stale delivery are chosen
	// (delays, clock offsets and timestamp availability stay at their defaults), so
	// that longer chains of losses fit into the deviation bound
	reduced bool
}

// pick is Choose, except that in the reduced alphabet the named choice is not offered.
func (e *env) pick(n int, label string) int {
	if e.reduced {
		return 0
	}
	return e.x.Choose(n, label)
}

type realServer struct {
	sock *vnet.UDPConn
	seen int
}

func (e *env) judge() {
	for ; e.judged < len(e.flt.Calls); e.judged++ {
		tu := e.flt.Calls[e.judged]
		ex, di := e.s.Match(tu)
		if ex == nil {
			e.x.Failf("timestamps-from-different-exchanges", "client combined t0=%v t1=%v t2=%v t3=%v: no single exchange has these four timestamps (%s)", rel(tu.T0), rel(tu.T1), rel(tu.T2), rel(tu.T3), e.truth())
		}
		ex.Accepted = true
		if ex.Unsync {
			e.x.Failf("unsynchronised-reply-accepted", "exchange %d: the server answered with leap indicator 3 / stratum 0 and the client still computed an offset from it", ex.N)
		}
		if e.lastDelivered != nil {
			// the response just consumed belongs to this exchange; the client's
			// next interleaved request must name it
			e.accepted = append(e.accepted, e.lastDelivered.E)
		}
		off := ntp.ClockOffset(tu.T0, tu.T1, tu.T2, tu.T3)
		rtd := ex.Fwd + ex.Bwd[di]
		// the exchange's own round-trip delay also contains whatever time the server
		// held the reply after reading its transmit time
		if m := ntp.RoundTripDelay(tu.T0, tu.T1, tu.T2, tu.T3); m > rtd {
			rtd = m
		}
		if d := (off - ex.Theta).Abs(); d > rtd/2+200 {
			e.x.Failf("offset-outside-half-rtd", "exchange %d: reported offset %v, true offset %v, round-trip delay %v", ex.N, off, ex.Theta, rtd)
		}
		e.x.Observe("acc", ex.N, ex.Carries != nil)
	}
}

func rel(t time.Time) string { return fmt.Sprintf("%v", t.Sub(world.Epoch)) }

func (e *env) truth() string {
	s := ""
	for _, ex := range e.s.Exchs {
		s += fmt.Sprintf("[exch %d: cTx=%s sRx=%s sTx=%s cRx=", ex.N, rel(ex.CTx), rel(ex.SRx.Add(-ex.Theta)), rel(ex.STx.Add(-ex.Theta)))
		for _, r := range ex.CRx {
			s += rel(r) + ","
		}
		s += fmt.Sprintf(" theta=%v]", ex.Theta)
	}
	return s
}

// checkRequest: a request on the wire is basic, or interleaved with all three
// timestamps taken from one accepted exchange.
func (e *env) checkRequest(d *vnet.Datagram) {
	var p ntp.Packet
	payload, _, ok := e.s.T.Unwrap(d)
	if !ok {
		e.x.Failf("request-undecodable", "transport layer")
	}
	if err := ntp.DecodePacket(&p, payload); err != nil {
		e.x.Failf("request-undecodable", "%v", err)
	}
	if p.Version() != 4 || p.Mode() != ntp.ModeClient {
		e.x.Failf("request-header", "VN=%d mode=%d", p.Version(), p.Mode())
	}
	if p.OriginTime == (ntp.Time64{}) && p.ReceiveTime == (ntp.Time64{}) {
		return
	}
	for _, ex := range e.accepted {
		okRx := false
		for _, r := range ex.CRx {
			if d := diff64(p.ReceiveTime, ntp.Time64FromTime(r)); d >= 0 && d < 2000 {
				okRx = true
			}
		}
		// the exchange named by origin is the one whose *response* the client
		// accepted last: its server receive timestamp, and the client's own
		// receive/transmit stamps of that exchange
		if p.OriginTime == ex.Resp.ReceiveTime && okRx {
			return
		}
	}
	e.x.Failf("interleaved-request-malformed", "request origin=%v rx=%v tx=%v does not name one accepted exchange (%s)", p.OriginTime, p.ReceiveTime, p.TransmitTime, e.truth())
}

func diff64(a, b ntp.Time64) int64 {
	return (int64(a.Seconds)-int64(b.Seconds))<<32 + int64(a.Fraction) - int64(b.Fraction)
}

func (e *env) clientSock() *vnet.UDPConn {
	var c *vnet.UDPConn
	for _, s := range e.w.Net.Open() {
		if s.Local().Addr() == netip.AddrFrom4([4]byte{10, 0, 0, 2}) && !s.Closed() {
			c = s
		}
	}
	return c
}

// serve produces the replies to one request (0, 1 or 2).
func (e *env) serve(d *vnet.Datagram) []*kit.Reply {
	x := e.x
	act := x.Choose(map[bool]int{false: 3, true: 2}[e.reduced], "req")
	if act == 1 {
		x.Logf("request dropped")
		return nil
	}
	e.s.Theta = thetas[e.pick(len(thetas), "theta")]
	fwd := delays[e.pick(len(delays), "fwd")]
	var out []*kit.Reply
	n := 1
	if act == 2 {
		n = 2
	}
	for i := 0; i < n; i++ {
		var r *kit.Reply
		if e.real != nil {
			r = e.realServe(d, fwd)
		} else {
			// the reference server may be unsynchronised for one exchange: it answers
			// (and records the exchange) as always, the client discards the reply
			e.s.Unsync = e.pick(2, "srv-unsync") == 1
			r = e.s.Serve(d, fwd)
		}
		if r != nil {
			out = append(out, r)
		}
		fwd = 0
	}
	return out
}

// serverStamp decides what the listener finds in its socket's error queue
// after sending a reply.
func (e *env) serverStamp(d *vnet.Datagram) *vnet.TxStamp {
	ts := e.w.Clock.Peek()
	defer func() { e.srvSends++ }()
	if e.srvLate != nil {
		e.real.sock.QueueErr(*e.srvLate)
		e.srvLate = nil
	}
	switch e.srvTxMode {
	case 1:
		return &vnet.TxStamp{None: true}
	case 2:
		// delivered late: this packet's entry reaches the queue only just before the
		// next reply's own entry
		e.srvLate = &vnet.TxStamp{TS: ts.Add(3 * time.Microsecond), ID: e.srvSends}
		return &vnet.TxStamp{None: true}
	}
	// the kernel stamps the packet a little after the software reading
	ts = ts.Add(3 * time.Microsecond)
	e.srvTx[d.Seq] = ts
	return &vnet.TxStamp{TS: ts, ID: e.srvSends}
}

// realServe passes the request through the repository's own listener.
func (e *env) realServe(d *vnet.Datagram, fwd time.Duration) *kit.Reply {
	s, w := e.s, e.w
	s.Depart(d)
	time.Sleep(fwd)
	ex := &kit.Exch{N: len(s.Exchs), Sock: d.Sock, Theta: s.Theta, Fwd: fwd, SendAt: s.SendClock[d.Seq], CTx: s.TxStamps[d.Seq]}
	ex.Fwd = time.Since(s.SendTrue[d.Seq].Add(2 * time.Microsecond))
	reqPayload, _, _ := s.T.Unwrap(d)
	ntp.DecodePacket(&ex.Req, reqPayload)
	e.srvTxMode = e.pick(3, "srv-txts")
	w.Clock.Offset += s.Theta
	rx := w.Clock.Peek()
	before := w.Net.NumSent()
	rd := *d
	rd.RxTime = rx
	if e.scion {
		rd.From = kit.Router
	}
	e.real.sock.Deliver(&rd)
	w.Settle()
	stamp := w.Clock.Peek()
	w.Clock.Offset -= s.Theta
	time.Sleep(3 * time.Microsecond) // the reply leaves when the kernel stamps it (see serverStamp)
	w.CheckPanics()
	outs := w.Net.SentSince(before)
	s.NewRequests() // skip the server's datagrams in the request scan
	if len(outs) != 1 {
		e.x.Failf("server-no-reply", "the listener wrote %d datagrams for a well-formed request", len(outs))
	}
	respPayload, _, _ := s.T.Unwrap(outs[0])
	ntp.DecodePacket(&ex.Resp, respPayload)
	ex.SRx = ntp.TimeFromTime64(ex.Resp.ReceiveTime, rx)
	_ = stamp
	// the kernel transmit stamp the listener read back is what it recorded; without
	// one the exchange is dropped from the record, and the reply itself carries the
	// software transmit time
	ex.STx = e.srvTx[outs[0].Seq]
	if ex.STx.IsZero() {
		ex.STx = ntp.TimeFromTime64(ex.Resp.TransmitTime, rx)
		ex.NoKernelTx = true
	}
	if ex.Resp.OriginTime == ex.Req.ReceiveTime && ex.Req.ReceiveTime != ex.Req.TransmitTime {
		for _, o := range s.Exchs {
			if o.Resp.ReceiveTime == ex.Req.OriginTime {
				ex.Carries = o
			}
		}
		if ex.Carries != nil && ex.Carries.NoKernelTx {
			e.x.Failf("interleaved-reply-without-kernel-timestamp", "the listener answered in interleaved mode from exchange %d whose transmit timestamp it could not read (that exchange must have been dropped from its record)", ex.Carries.N)
		}
		if ex.Carries != nil && ex.Resp.TransmitTime != ntp.Time64FromTime(ex.Carries.STx) {
			e.x.Failf("interleaved-reply-wrong-transmit", "interleaved reply carries transmit %v, the kernel stamped exchange %d at %v", ex.Resp.TransmitTime, ex.Carries.N, ntp.Time64FromTime(ex.Carries.STx))
		}
	} else {
		// a basic reply carries the software transmit time
		ex.STxAlt = ntp.TimeFromTime64(ex.Resp.TransmitTime, rx)
	}
	s.Exchs = append(s.Exchs, ex)
	from := srvAddr
	if e.scion {
		from = kit.Router
	}
	out := &vnet.Datagram{From: from, To: d.From, Data: outs[0].Data, Tag: fmt.Sprintf("reply%d", ex.N)}
	return &kit.Reply{E: ex, D: out, Left: time.Now()}
}

func program(r *mc.Run, interleaved, real, overSCION bool, calls int, reduced ...bool) func(x *mc.X) {
	return func(x *mc.X) {
		world.Run(r.T, x, func(w *world.World) {
			e := &env{w: w, x: x, flt: &kit.RecFilter{}, scion: overSCION, reduced: len(reduced) > 0 && reduced[0]}
			if e.reduced {
				// the system hands the client the same ephemeral port for every exchange, so
				// a delayed reply can reach a later exchange
				w.Net.StickyPort = true
			}
			// a poll of the error queue for a transmit timestamp that is not there takes its timeout
			w.Net.PollBlocks = func(c *vnet.UDPConn) bool { return e.real == nil || c != e.real.sock }
			e.s = kit.NewSim(w, x, kit.IPTransport, srvAddr)
			if overSCION {
				e.s = kit.NewSim(w, x, kit.SCIONTransport{}, kit.Router)
			}
			if real && overSCION {
				server.VerifResetTSS()
				e.sw = kit.NewSCIONWorld(w, kit.SrvHost, false, nil)
				e.real = &realServer{sock: e.sw.Svc}
				e.srvTx = map[int]time.Time{}
				simHook := w.Net.OnSend
				w.Net.OnSend = func(c *vnet.UDPConn, d *vnet.Datagram) *vnet.TxStamp {
					if c == e.real.sock {
						return e.serverStamp(d)
					}
					return simHook(c, d)
				}
			} else if real {
				server.VerifResetTSS()
				lc := vnet.ListenConfig{}
				pc, _ := lc.ListenPacket(context.Background(), "udp", srvAddr.String())
				e.real = &realServer{sock: pc.(*vnet.UDPConn)}
				e.srvTx = map[int]time.Time{}
				simHook := w.Net.OnSend
				w.Net.OnSend = func(c *vnet.UDPConn, d *vnet.Datagram) *vnet.TxStamp {
					if c == e.real.sock {
						return e.serverStamp(d)
					}
					return simHook(c, d)
				}
				w.Go("ipserver", func() { server.VerifRunIPServer(context.Background(), w.Log, e.real.sock, "", 0, nil) })
				w.Settle()
			}
			c := &client.IPClient{Log: w.Log, InterleavedMode: interleaved, Filter: e.flt}
			sc := &client.SCIONClient{Log: w.Log, InterleavedMode: interleaved, Filter: e.flt}
			spath := kit.PathSpec{Kind: "scion", Segs: []int{2, 2}}.SnetPath(kit.CliIA, kit.SrvIA, net.UDPAddrFromAddrPort(kit.Router))
			for call := 0; call < calls; call++ {
				gap := gaps[e.pick(len(gaps), "gap")]
				if e.reduced {
					gap = 0 // calls follow each other at once: a chain of failed calls stays inside the interleaved window
				}
				if call > 0 {
					// make the next request's clock reading exactly lastTx + gap
					d := e.lastTx.Add(gap).Sub(w.Clock.Peek().Add(1))
					if d > 0 {
						time.Sleep(d)
					}
				}
				e.s.TxTS = e.pick(2, "txts") == 0
				var ts time.Time
				var off time.Duration
				var err error
				ctx, cancel := context.WithTimeout(context.Background(), callTimeout)
				deadline := time.Now().Add(callTimeout)
				nflt := len(e.flt.Calls)
				th := w.Go("client", func() {
					if overSCION {
						local := udp.UDPAddr{IA: kit.CliIA, Host: &net.UDPAddr{IP: clientIP}}

						remote := udp.UDPAddr{IA: kit.SrvIA, Host: &net.UDPAddr{IP: kit.SrvHost.AsSlice(), Port: kit.SrvPort}}
						ts, off, err = client.MeasureClockOffsetSCION(ctx, w.Log, []*client.SCIONClient{sc}, local, remote, []snet.Path{spath})
						return
					}
					ts, off, err = client.MeasureClockOffsetIP(ctx, w.Log, c, &net.UDPAddr{IP: clientIP}, &net.UDPAddr{IP: net.IPv4(10, 0, 0, 1), Port: 123})
				})
				stall := 0
				for {
					w.Settle()
					w.CheckPanics()
					e.judge()
					if th.Finished() {
						break
					}
					sock := e.clientSock()
					if sock == nil {
						x.Failf("harness", "client neither finished nor holding a socket")
					}
					reqs := e.s.NewRequests()
					if !sock.Reading.Load() && len(reqs) == 0 {
						// the client is waiting for a transmit timestamp that does not come (its
						// request is already on the wire and may be answered meanwhile)
						stall++
						if stall > 5 {
							x.Failf("harness", "client neither finished nor reading")
						}
						time.Sleep(time.Millisecond)
						continue
					}
					stall = 0
					var pending []*kit.Reply
					for _, d := range reqs {
						if d.Sock != sock {
							continue
						}
						e.checkRequest(d)
						if ts, ok := e.s.SendClock[d.Seq]; ok {
							e.lastTx = ts
						}
						pending = append(pending, e.serve(d)...)
					}
					x.Transitions++
					// decisions for the next attempt / this attempt's deliveries
					e.s.TxTS = e.pick(2, "txts-next") == 0
					e.s.RxTS = e.pick(2, "rxts") == 0
					if e.pick(2, "next-port") == 1 {
						w.Net.NextPort = sock.Local().Port()
					}
					// a held (stale) reply addressed to this socket may arrive first
					for i, h := range e.s.Held {
						if h.D.To == sock.Local() {
							if x.Choose(2, "stale-first") == 1 {
								x.Logf("stale reply %d delivered", h.E.N)
								e.s.Held = append(e.s.Held[:i:i], e.s.Held[i+1:]...)
								e.lastDelivered = h
								e.s.Deliver(h, sock, 0)
								e.judge()
							}
							break
						}
					}
					for _, rp := range pending {
						if th.Finished() || sock.Closed() {
							break
						}
						rc := 0
						if e.reduced {
							rc = []int{0, 3, 1}[x.Choose(3, "reply")] // deliver, hold, drop
						} else {
							rc = x.Choose(4, "reply")
						}
						switch rc {
						case 0:
							e.lastDelivered = rp
							e.s.Deliver(rp, sock, delays[e.pick(len(delays), "bwd")])
						case 1:
							x.Logf("reply %d dropped", rp.E.N)
						case 2:
							e.lastDelivered = rp
							e.s.Deliver(rp, sock, delays[e.pick(len(delays), "bwd")])
							if !sock.Closed() {
								e.s.Deliver(rp, sock, 0)
							}
						case 3:
							x.Logf("reply %d held", rp.E.N)
							e.s.Held = append(e.s.Held, rp)
						}
						e.judge()
					}
					w.Settle()
					if !th.Finished() && sock.Reading.Load() && !sock.Closed() && sock.Pending() == 0 {
						// nothing (acceptable) arrived: the deadline passes
						if d := time.Until(deadline); d > 0 {
							time.Sleep(d + 1)
						} else {
							time.Sleep(1)
						}
					}
				}
				cancel()
				// late attempts of the round's per-path goroutine (each waits for a transmit
				// timestamp that may not come) end on their own; give them the time
				for k := 0; k < 8; k++ {
					w.Advance(time.Millisecond)
				}
				e.s.NewRequests()
				e.judge()
				if err == nil {
					if len(e.flt.Calls) == nflt {
						x.Failf("success-without-exchange", "call %d returned offset %v without evaluating a response", call, off)
					}
					last := e.flt.Calls[len(e.flt.Calls)-1]
					if want := ntp.ClockOffset(last.T0, last.T1, last.T2, last.T3); off != want {
						x.Failf("returned-offset-not-of-accepted-exchange", "returned %v, the accepted exchange gives %v", off, want)
					}
					if ts.IsZero() {
						x.Failf("success-without-timestamp", "zero timestamp")
					}
				}
				x.Observe(err == nil, len(e.flt.Calls)-nflt)
				x.Logf("call %d -> err=%v off=%v", call, err, off)
			}
		})
	}
}

func TestCheck(t *testing.T) {
	mc.Main(t, "C03", func(r *mc.Run) {
		for _, il := range []bool{true, false} {
			for _, real := range []bool{false, true} {
				name := fmt.Sprintf("ip/interleaved=%v/realserver=%v", il, real)
				r.Explore(mc.Config{Name: name, Bound: mc.Pick(r, 3, 4)}, program(r, il, real, false, mc.Pick(r, 3, 4)))
				name = fmt.Sprintf("scion/interleaved=%v/realserver=%v", il, real)
				r.Explore(mc.Config{Name: name, Bound: mc.Pick(r, 3, 4)}, program(r, il, real, true, mc.Pick(r, 3, 4)))
			}
		}
		// chains of losses: only {deliver, drop} for requests, {deliver, hold, drop} for
		// replies, port reuse and stale delivery are chosen, within 5 (6) deviations
		for _, sc := range []bool{false, true} {
			name := fmt.Sprintf("loss-chains/scion=%v", sc)
			r.Explore(mc.Config{Name: name, Bound: mc.Pick(r, 5, 6)}, program(r, true, false, sc, mc.Pick(r, 5, 6), true))
		}
		r.Extra["rule"] = "histories of 3 (4) MeasureClockOffsetIP / MeasureClockOffsetSCION calls (each up to 3 exchanges) with the real IPClient and the real SCIONClient (one path), interleaved mode on/off, against a reference server and against the repository's runIPServer / runSCIONServer; per exchange: request {deliver, drop, duplicate}, server clock offset in {0,+1.37s,-250ms}, forward/backward delay in {3ms,0,1ns,40ms}, reply {deliver, drop, duplicate, hold and deliver stale later}, reference server synchronised / unsynchronised for that exchange (LI=3, stratum 0: the client must discard the reply and keep naming the last accepted exchange), client port fresh/reused, kernel rx/tx timestamps present/absent, gap to next call in {1s,0,3s-1ns,3s,3s+1ns,10s}; all histories within 3 (4) deviations; in addition histories of 5 (6) back-to-back calls in interleaved mode with the same ephemeral client port handed out for every exchange, over a reduced alphabet (request {deliver, drop}, reply {deliver, hold, drop}, stale delivery first) within 5 (6) deviations"
	})
}
