// C15: multipath SCION measurement probes pairwise distinct paths, combined
// by fault-tolerant midpoint (DESIGN.md C15). Part 1 runs the real
// MeasureClockOffsetSCION with real SCIONClients over the in-memory network
// against the real SCION listener; part 2 enumerates the random-number
// primitives completely through a scripted crypto/rand.Reader.
package c15

import (
	"context"
	crand "crypto/rand"
	"encoding/binary"
	"flag"
	"fmt"
	"net"
	"net/netip"
	"sort"
	"testing"
	"time"

	"github.com/scionproto/scion/pkg/snet"

	"example.com/scion-time/base/crypto"
	"example.com/scion-time/core/client"
	"example.com/scion-time/core/measurements"
	"example.com/scion-time/core/server"
	"example.com/scion-time/net/ntp"
	"example.com/scion-time/net/udp"

	"verif.local/kit"
	"verif.local/mc"
	"verif.local/shim/vnet"
	"verif.local/world"
)

var mode = flag.String("vmode", "paths", "paths|uniform")

// ---------------------------------------------------------------- part 2

type wordReader struct {
	words []uint32
	used  int
}

func (r *wordReader) Read(p []byte) (int, error) {
	for i := 0; i+4 <= len(p); i += 4 {
		w := uint32(0xfffffff0)
		if r.used < len(r.words) {
			w = r.words[r.used]
		}
		r.used++
		binary.LittleEndian.PutUint32(p[i:], w)
	}
	return len(p), nil
}

func uniform(r *mc.Run) {
	orig := crand.Reader
	defer func() { crand.Reader = orig }()
	ctx := context.Background()
	ns := []int{2, 3}
	if r.Thorough() {
		ns = []int{2, 3, 4, 5, 6, 7, 8, 9, 10, 11, 12, 13, 14, 15, 16}
	}
	const chunk = 1 << 24
	groups := map[string][]string{}
	for _, n := range ns {
		var keys []string
		for k := 0; k < n; k++ {
			keys = append(keys, fmt.Sprintf("n_randintn_%d_residue_%d", n, k))
		}
		groups[fmt.Sprintf("RandIntn(%d)", n)] = keys
		for c := uint64(0); c < 1<<32; c += chunk {
			if !r.Mine() {
				continue
			}
			counts := make([]int64, n)
			var rejected int64
			rd := &wordReader{words: make([]uint32, 1)}
			crand.Reader = rd
			for w := c; w < c+chunk; w++ {
				rd.words[0] = uint32(w)
				rd.used = 0
				v, err := crypto.RandIntn(ctx, n)
				if err != nil || v < 0 || v >= n {
					r.Fail("uniform", "randintn-out-of-range", fmt.Sprintf("RandIntn(%d) with first word %#x returned %d, %v", n, w, v, err), map[string]any{"n": n, "word": w})
					continue
				}
				if rd.used == 1 {
					counts[v]++
				} else {
					rejected++
				}
			}
			r.Evals += chunk
			r.Distinct += chunk
			for k := range counts {
				key := fmt.Sprintf("n_randintn_%d_residue_%d", n, k)
				v, _ := r.Extra[key].(int64)
				r.Extra[key] = v + counts[k]
			}
			key := fmt.Sprintf("n_randintn_%d_rejected", n)
			v, _ := r.Extra[key].(int64)
			r.Extra[key] = v + rejected
		}
	}
	r.Extra["uniform_groups"] = groups
	// Sample: every outcome sequence, realised by scripting accepted words
	if r.Mine() || r.ShardN == 1 {
		for n := 0; n <= mc.Pick(r, 6, 7); n++ {
			for k := 0; k <= n+1; k++ {
				sampleAll(r, k, n)
			}
		}
		// a cancelled context propagates (looked at after a rejected word)
		cctx, cancel := context.WithCancel(ctx)
		cancel()
		crand.Reader = &wordReader{words: []uint32{0, 0, 0}}
		if _, err := crypto.Sample(cctx, 1, 3, func(int, int) {}); err == nil {
			r.Fail("uniform", "sample-ignores-cancellation", "Sample returned no error although the context was cancelled and the first word was rejected", nil)
		}
	}
	r.Sample(map[string]any{"RandIntn": ns, "words_per_n": uint64(1) << 32})
	r.Extra["rule"] = "RandIntn(n), n in {2,3} (thorough 2..16): all 2^32 first words, acceptance and residue tabulated, residue counts must differ by at most 1; Sample(k,n), n <= 6 (7): all prod(i+1) outcome sequences, every k-subset selected equally often; cancellation"
}

// sampleAll enumerates every sequence of RandIntn results for Sample(k, n).
func sampleAll(r *mc.Run, k, n int) {
	kk := min(k, n)
	calls := n - kk
	res := make([]int, calls)
	counts := map[string]int64{}
	var total int64
	var rec func(i int)
	rec = func(i int) {
		if i < calls {
			m := kk + i + 1
			for j := 0; j < m; j++ {
				res[i] = j
				rec(i + 1)
			}
			return
		}
		words := make([]uint32, calls)
		for i := range words {
			m := uint32(kk + i + 1)
			base := uint32(0xfffff000)
			words[i] = base + (uint32(res[i])+m-base%m)%m
		}
		if kk == 0 && n >= 1 {
			words = words[1:] // RandIntn(1) reads nothing
		}
		rd := &wordReader{words: words}
		crand.Reader = rd
		slots := make([]int, kk)
		for i := range slots {
			slots[i] = -1
		}
		npick := 0
		got, err := crypto.Sample(context.Background(), k, n, func(dst, src int) {
			npick++
			if dst < 0 || dst >= kk || src < 0 || src >= n {
				r.Fail("sample", "sample-pick-out-of-range", fmt.Sprintf("Sample(%d,%d): pick(%d,%d)", k, n, dst, src), nil)
				return
			}
			slots[dst] = src
		})
		r.Evals++
		total++
		if err != nil || got != kk {
			r.Fail("sample", "sample-count", fmt.Sprintf("Sample(%d,%d) returned %d, %v", k, n, got, err), nil)
			return
		}
		consuming := 0
		for i := kk; i < n; i++ {
			if i+1 >= 2 {
				consuming++
			}
		}
		if rd.used != consuming {
			r.Fail("sample", "sample-random-words", fmt.Sprintf("Sample(%d,%d) consumed %d words, want %d", k, n, rd.used, calls), nil)
		}
		s := append([]int{}, slots...)
		sort.Ints(s)
		for i := range s {
			if s[i] < 0 || (i > 0 && s[i] == s[i-1]) {
				r.Fail("sample", "sample-not-distinct", fmt.Sprintf("Sample(%d,%d) with results %v selected %v", k, n, res, slots), nil)
				return
			}
		}
		counts[fmt.Sprint(s)]++
	}
	rec(0)
	r.Distinct += total
	// every k-subset equally often
	nsub := int64(1)
	for i := 0; i < kk; i++ {
		nsub = nsub * int64(n-i) / int64(i+1)
	}
	if int64(len(counts)) != nsub {
		r.Fail("sample", "sample-not-uniform", fmt.Sprintf("Sample(%d,%d): %d of %d subsets reachable", k, n, len(counts), nsub), nil)
		return
	}
	for s, c := range counts {
		if c*nsub != total {
			r.Fail("sample", "sample-not-uniform", fmt.Sprintf("Sample(%d,%d): subset %s selected %d times of %d (want %d)", k, n, s, c, total, total/nsub), nil)
			return
		}
	}
}

// draw: the composition of path selection with the random primitives. Fresh
// clients (none in interleaved mode) and a fixed path menu; every vector of
// three scripted random words (12 values each: every residue modulo 1..4 equally
// often) is enumerated and the assignment of paths to clients tallied. Over the
// whole enumeration every set of distinct paths must be probed equally often,
// whatever algorithm is used - in particular no offered path (fingerprint-less
// or not) may be handed out outside the draw.
func draw(r *mc.Run) {
	pl := pool()
	groups, _ := r.Extra["uniform_groups"].(map[string][]string)
	if groups == nil {
		groups = map[string][]string{}
	}
	for _, nclients := range []int{1, 2} {
		for _, menu := range [][]int{{0, 1}, {5, 0}, {0, 5}, {5, 0, 1}, {0, 1, 2}, {1, 5, 2, 0}} {
			if !r.Mine() {
				continue
			}
			scen := fmt.Sprintf("draw_clients=%d_menu=%v", nclients, menu)
			// all subsets of offered paths of the size of the participating clients (the
			// statement asks for distinct paths drawn uniformly; which client gets which
			// of the drawn paths is left to the implementation)
			var keys []string
			var rec func(cur []int, from int)
			rec = func(cur []int, from int) {
				if len(cur) == min(nclients, len(menu)) {
					c := append([]int{}, cur...)
					sort.Ints(c)
					k := fmt.Sprintf("n_%s_paths=%v", scen, c)
					keys = append(keys, k)
					if _, ok := r.Extra[k]; !ok {
						r.Extra[k] = int64(0)
					}
					return
				}
				for i := from; i < len(menu); i++ {
					rec(append(append([]int{}, cur...), menu[i]), i+1)
				}
			}
			rec(nil, 0)
			groups[scen] = keys
			for v := 0; v < 12*12*12; v++ {
				x := &mc.X{}
				world.Run(r.T, x, func(w *world.World) {
					cs := make([]*client.SCIONClient, nclients)
					for i := range cs {
						cs[i] = &client.SCIONClient{Log: w.Log, DSCP: uint8(i + 1), InterleavedMode: i%2 == 0, Filter: &kit.RecFilter{}}
					}
					var ps []snet.Path
					byHop := map[netip.AddrPort]int{}
					for _, k := range menu {
						ps = append(ps, pl[k].spec.SnetPath(kit.CliIA, kit.SrvIA, net.UDPAddrFromAddrPort(pl[k].hop)))
						byHop[pl[k].hop] = k
					}
					var words []uint32
					for j, vv := 0, v; j < 3; j, vv = j+1, vv/12 {
						base := uint32(0xfffffff0)
						words = append(words, base-(base-uint32(vv%12))%12)
					}
					w.Rand.Script = words
					local := udp.UDPAddr{IA: kit.CliIA, Host: &net.UDPAddr{IP: kit.CliHost.AsSlice()}}
					remote := udp.UDPAddr{IA: kit.SrvIA, Host: &net.UDPAddr{IP: kit.SrvHost.AsSlice(), Port: kit.SrvPort}}
					ctx, cancel := context.WithTimeout(context.Background(), time.Second)
					th := w.Go("measure", func() { client.MeasureClockOffsetSCION(ctx, w.Log, cs, local, remote, ps) })
					w.Settle()
					w.CheckPanics()
					assign := make([]int, min(nclients, len(menu)))
					for i := range assign {
						assign[i] = -1
					}
					for _, d := range w.Net.SentSince(0) {
						pr, err := kit.Parse(d.Data)
						if err != nil {
							continue
						}
						who := int(pr.SCION.TrafficClass>>2) - 1
						if k, ok := byHop[d.To]; ok && who >= 0 && who < len(assign) && assign[who] == -1 {
							assign[who] = k
						}
					}
					cancel()
					for i := 0; i < 5 && !th.Finished(); i++ {
						w.Advance(time.Second)
					}
					set := append([]int{}, assign...)
					sort.Ints(set)
					key := fmt.Sprintf("n_%s_paths=%v", scen, set)
					if _, ok := r.Extra[key]; !ok {
						r.Fail("draw", "draw-assignment-impossible", fmt.Sprintf("%s, words %v: clients probed paths %v, which are not distinct offered paths", scen, words, assign), nil)
						return
					}
					r.Extra[key] = r.Extra[key].(int64) + 1
				})
				r.Evals++
				r.Distinct++
			}
		}
	}
	r.Extra["uniform_groups"] = groups
}

// ---------------------------------------------------------------- part 1

// path menus: indices into a pool of five distinguishable paths plus one
// fingerprint-less (empty, intra-AS style) path; duplicates share a fingerprint.
type pathDef struct {
	spec kit.PathSpec
	hop  netip.AddrPort
	fp   int // fingerprint class (-1: none)
}

func pool() []pathDef {
	var ps []pathDef
	for i := 0; i < 4; i++ {
		ps = append(ps, pathDef{kit.PathSpec{Kind: "scion", Segs: []int{2, 2}, ID: i}, netip.AddrPortFrom(netip.AddrFrom4([4]byte{10, 0, 1, byte(i + 1)}), 31000), i})
	}
	// a second path object with the fingerprint of path 0 (different next hop)
	ps = append(ps, pathDef{kit.PathSpec{Kind: "scion", Segs: []int{2, 2}, ID: 0}, netip.MustParseAddrPort("10.0.1.50:31000"), 0})
	// a path without interface metadata
	ps = append(ps, pathDef{kit.PathSpec{Kind: "empty"}, netip.MustParseAddrPort("10.0.1.60:31000"), -1})
	return ps
}

var menus = [][]int{{0, 1, 2}, {0}, {}, {0, 1}, {1, 2, 3}, {0, 4}, {0, 4, 1}, {5}, {5, 0}, {0, 1, 2, 3}, {2, 0}}

func program(r *mc.Run) func(x *mc.X) {
	return func(x *mc.X) {
		world.Run(r.T, x, func(w *world.World) {
			server.VerifResetTSS()
			sw := kit.NewSCIONWorld(w, kit.SrvHost, false, nil)
			pl := pool()
			nclients := 1 + x.Choose(3, "clients")
			cs := make([]*client.SCIONClient, nclients)
			fl := make([]*kit.RecFilter, nclients)
			for i := range cs {
				fl[i] = &kit.RecFilter{}
				cs[i] = &client.SCIONClient{Log: w.Log, DSCP: uint8(i + 1), InterleavedMode: x.Choose(2, fmt.Sprintf("client%d-interleaved", i)) == 0, Filter: fl[i]}
			}
			local := udp.UDPAddr{IA: kit.CliIA, Host: &net.UDPAddr{IP: kit.CliHost.AsSlice()}}
			prevPath := make([]int, nclients) // fingerprint class each client used last (-2: none)
			for i := range prevPath {
				prevPath[i] = -2
			}
			seen := 0
			for round := 0; round < 2; round++ {
				menu := menus[x.Choose(len(menus), fmt.Sprintf("paths-round%d", round))]
				var ps []snet.Path
				byHop := map[netip.AddrPort]pathDef{}
				for _, k := range menu {
					ps = append(ps, pl[k].spec.SnetPath(kit.CliIA, kit.SrvIA, net.UDPAddrFromAddrPort(pl[k].hop)))
					byHop[pl[k].hop] = pl[k]
				}
				// random words: the j-th RandIntn call yields sel[j] mod its bound
				var words []uint32
				for j := 0; j < 4; j++ {
					s := uint32(x.Choose(12, fmt.Sprintf("rand%d", j)))
					base := uint32(0xfffffff0)
					words = append(words, base-(base-s)%12)
				}
				w.Rand.Script = words
				remote := udp.UDPAddr{IA: kit.SrvIA, Host: &net.UDPAddr{IP: kit.SrvHost.AsSlice(), Port: kit.SrvPort}}
				ctx, cancel := context.WithTimeout(context.Background(), time.Second)
				deadline := time.Now().Add(time.Second)
				var off time.Duration
				var err error
				inIL := make([]bool, nclients)
				resets := make([]int, nclients)
				for i, c := range cs {
					inIL[i] = c.InInterleavedMode()
					resets[i] = fl[i].Resets
				}
				nflt := make([]int, nclients)
				for i := range fl {
					nflt[i] = len(fl[i].Calls)
				}
				th := w.Go("measure", func() {
					_, off, err = client.MeasureClockOffsetSCION(ctx, w.Log, cs, local, remote, ps)
				})
				used := map[int]pathDef{}    // client -> path of its first request this round
				firstBasic := map[int]bool{} // client -> first request this round was not interleaved
				dropped := map[int]bool{}
				for {
					w.Settle()
					w.CheckPanics()
					if th.Finished() {
						break
					}
					// new requests, by client (traffic class) and next hop
					reqs := w.Net.SentSince(seen)
					seen += len(reqs)
					type pend struct {
						d    *vnet.Datagram
						who  int
						sock *vnet.UDPConn
					}
					var pending []pend
					for _, d := range reqs {
						if d.Sock == sw.Svc || d.Sock == sw.EH {
							continue
						}
						pr, perr := kit.Parse(d.Data)
						if perr != nil || pr.UDP == nil {
							x.Failf("request-undecodable", "%v", perr)
						}
						who := int(pr.SCION.TrafficClass>>2) - 1
						pd, ok := byHop[d.To]
						if !ok {
							x.Failf("request-to-unknown-next-hop", "request of client %d sent to %v which is not the next hop of an offered path", who, d.To)
						}
						if _, dup := used[who]; !dup {
							used[who] = pd
							var q ntp.Packet
							ntp.DecodePacket(&q, pr.UDP.Payload)
							firstBasic[who] = q.OriginTime == (ntp.Time64{})
						} else if used[who].hop != pd.hop {
							x.Failf("client-changed-path-within-round", "client %d used next hops %v and %v in one round", who, used[who].hop, pd.hop)
						}
						pending = append(pending, pend{d, who, d.Sock})
					}
					// goroutines of one round run in parallel: order their requests canonically
					sort.SliceStable(pending, func(a, b int) bool { return pending[a].who < pending[b].who })
					if len(pending) == 0 {
						// everybody waits: let the deadline pass
						time.Sleep(time.Until(deadline) + 1)
						continue
					}
					// completion order and per-path failure
					for len(pending) > 0 {
						k := x.Choose(len(pending), "serve-next")
						p := pending[k]
						pending = append(pending[:k:k], pending[k+1:]...)
						fate := 1
						if !dropped[p.who] {
							fate = x.Choose(3, fmt.Sprintf("path-of-client%d", p.who))
						}
						if fate == 1 {
							dropped[p.who] = true
							continue // lost: that client times out
						}
						out := sw.Send(sw.Svc, p.d.To, p.d.Data)
						if len(out) != 1 || p.sock.Closed() {
							continue
						}
						if fate == 2 {
							// the server is unsynchronised for this one exchange and the network
							// duplicates its reply: the attempt fails at once (both datagrams are
							// discarded), a client with attempts left tries again in the same round
							gen, perr := kit.Parse(out[0].Data)
							if perr != nil || gen.UDP == nil {
								x.Failf("harness", "reply of the listener: %v", perr)
							}
							payload := append([]byte{}, gen.UDP.Payload...)
							payload[0] |= 0xc0
							payload[1] = 0
							sh, _ := netip.AddrFromSlice(gen.SCION.RawSrcAddr)
							dh, _ := netip.AddrFromSlice(gen.SCION.RawDstAddr)
							pk := &kit.Pkt{SrcIA: gen.SCION.SrcIA, DstIA: gen.SCION.DstIA, SrcHost: sh, DstHost: dh, RawPath: gen.RawPath, PathType: gen.SCION.PathType,
								L4: "udp", SrcPort: gen.UDP.SrcPort, DstPort: gen.UDP.DstPort, Payload: payload}
							for k := 0; k < 2 && !p.sock.Closed(); k++ {
								bad := *out[0]
								bad.Data = pk.Bytes()
								bad.RxTime = w.Clock.Peek()
								p.sock.Deliver(&bad)
								w.Settle()
							}
							x.Transitions++
							x.Logf("client %d: unsynchronised reply, duplicated", p.who)
							continue
						}
						rd := *out[0]
						rd.RxTime = w.Clock.Peek()
						p.sock.Deliver(&rd)
						w.Settle()
						x.Transitions++
					}
				}
				cancel()
				// per-path goroutines may outlive the round (late attempts): let them finish
				w.Settle()
				w.CheckPanics()
				for _, d := range w.Net.SentSince(seen) {
					if pr, e := kit.Parse(d.Data); e == nil && d.Sock != sw.Svc && d.Sock != sw.EH {
						who := int(pr.SCION.TrafficClass>>2) - 1
						if pd, ok := byHop[d.To]; !ok || (used[who].hop != pd.hop) {
							x.Failf("client-changed-path-within-round", "late request of client %d went to %v", who, d.To)
						}
					}
				}
				seen = w.Net.NumSent()
				// ---- oracle
				var part []int
				for who := range used {
					part = append(part, who)
				}
				sort.Ints(part)
				if len(part) > len(menu) {
					x.Failf("more-clients-than-paths", "%d clients took part, %d paths offered", len(part), len(menu))
				}
				hops := map[netip.AddrPort]int{}
				for _, who := range part {
					if o, dup := hops[used[who].hop]; dup {
						x.Failf("two-clients-on-one-path", "clients %d and %d both probed the path via %v", o, who, used[who].hop)
					}
					hops[used[who].hop] = who
				}
				want := min(nclients, len(menu))
				if len(part) != want {
					x.Failf("participants", "%d clients, %d paths offered: %d clients took part", nclients, len(menu), len(part))
				}
				avail := map[int]int{}
				for _, k := range menu {
					avail[pl[k].fp]++
				}
				for i := range cs {
					if !inIL[i] {
						continue
					}
					// paths are handed to the clients in order: a path already kept by an
					// earlier client is no longer on offer
					offered := avail[prevPath[i]] > 0
					if offered {
						avail[prevPath[i]]--
					}
					if offered {
						pd, took := used[i]
						if !took || pd.fp != prevPath[i] {
							x.Failf("interleaved-client-lost-its-path", "client %d was in interleaved mode on path class %d, which is still offered (menu %v), but probed %+v", i, prevPath[i], menu, pd)
						}
						if fl[i].Resets != resets[i] {
							x.Failf("interleaved-client-reset-although-path-offered", "client %d (path class %d still offered, menu %v) had its filter reset", i, prevPath[i], menu)
						}
					} else {
						if fl[i].Resets == resets[i] {
							x.Failf("client-not-reset-after-path-withdrawn", "client %d was in interleaved mode on path class %d, not offered any more (menu %v): filter not reset", i, prevPath[i], menu)
						}
						if _, took := used[i]; took && !firstBasic[i] {
							x.Failf("client-not-reset-after-path-withdrawn", "client %d sent an interleaved request after its path was withdrawn", i)
						}
					}
				}
				if len(menu) == 0 {
					if err == nil {
						x.Failf("no-path-no-error", "no path offered but the round reported %v", off)
					}
				} else {
					// one value per participant whose exchange succeeded (the last filter
					// output of this round); failed participants contribute nothing. A
					// participant that lost a later attempt hands in its result exactly at
					// the deadline, where it may or may not be counted (C16): every subset
					// of those is acceptable.
					var sure, maybe []measurements.Measurement
					for _, who := range part {
						if len(fl[who].Calls) > nflt[who] {
							tu := fl[who].Calls[len(fl[who].Calls)-1]
							m := measurements.Measurement{Offset: ntp.ClockOffset(tu.T0, tu.T1, tu.T2, tu.T3)}
							if dropped[who] {
								maybe = append(maybe, m)
							} else {
								sure = append(sure, m)
							}
						}
					}
					okResult := false
					var wants []time.Duration
					for mask := 0; mask < 1<<len(maybe); mask++ {
						ms := append([]measurements.Measurement{}, sure...)
						for i, m := range maybe {
							if mask&(1<<i) != 0 {
								ms = append(ms, m)
							}
						}
						if len(ms) == 0 {
							okResult = okResult || err != nil
							continue
						}
						w := measurements.FaultTolerantMidpoint(ms).Offset
						wants = append(wants, w)
						okResult = okResult || (err == nil && off == w)
					}
					if !okResult {
						switch {
						case len(sure)+len(maybe) == 0:
							x.Failf("round-succeeded-without-measurement", "no participant completed an exchange but the round reported offset %v without error", off)
						case err != nil:
							x.Failf("round-failed-although-paths-answered", "%d participants measured in time, round reported %v", len(sure), err)
						default:
							x.Failf("result-not-midpoint-of-participants", "round reported %v; fault-tolerant midpoint over one value per measuring participant (%d in time, %d at the deadline, %d took part) would be one of %v", off, len(sure), len(maybe), len(part), wants)
						}
					}
				}
				for _, who := range part {
					if len(fl[who].Calls) > nflt[who] {
						prevPath[who] = used[who].fp
					}
				}
				x.Observe(round, len(part), err == nil)
				x.Logf("round %d: menu %v participants %v err=%v", round, menu, part, err)
				time.Sleep(100 * time.Millisecond)
			}
		})
	}
}

func TestCheck(t *testing.T) {
	mc.Main(t, "C15", func(r *mc.Run) {
		if *mode == "uniform" {
			uniform(r)
			return
		}
		r.Explore(mc.Config{Name: "paths", Bound: mc.Pick(r, 3, 4)}, program(r))
		if !r.Replaying() {
			draw(r)
		}
		r.Extra["rule"] = "two rounds of MeasureClockOffsetSCION with 1..3 real SCIONClients (each interleaved or not) against the real SCION listener; offered path sets from an 11-entry menu (0..4 paths, a duplicate fingerprint, a fingerprint-less path); random words scripted so that every RandIntn result is reachable; completion order of the per-path exchanges, per-path loss and per-exchange rejection (duplicated unsynchronised reply: the attempt fails at once, an interleaved client retries within the round) chosen by the explorer; all executions within 3 (4) deviations; composition of selection and random primitives: 1 and 2 fresh clients x 6 menus (with and without the fingerprint-less path) x all 12^3 vectors of scripted random words, every subset of offered paths of the right size must be probed equally often"
	})
}
