// C20: NTS key exchange - agreeing keys, bad offers refused, failures leave
// no state (DESIGN.md C20). The real ntske.Fetcher dials through vtls to a
// scripted TLS 1.3 peer (and to the repository's own key-exchange handler)
// inside a synctest bubble.
package c20

import (
	"bytes"
	"context"
	"crypto/tls"
	"encoding/binary"
	"errors"
	"fmt"
	"io"
	"net"
	"testing"

	"example.com/scion-time/core/client"
	"example.com/scion-time/core/server"
	"example.com/scion-time/net/ntske"

	"verif.local/kit"
	"verif.local/mc"
	"verif.local/shim/vnet"
	"verif.local/world"
)

type rec struct {
	Type uint16
	Crit bool
	Body []byte
}

func (r rec) bytes() []byte {
	t := r.Type
	if r.Crit {
		t |= 1 << 15
	}
	b := make([]byte, 4, 4+len(r.Body))
	binary.BigEndian.PutUint16(b, t)
	binary.BigEndian.PutUint16(b[2:], uint16(len(r.Body)))
	return append(b, r.Body...)
}

func u16(v uint16) []byte { return []byte{byte(v >> 8), byte(v)} }

func cookie(i int) []byte {
	c := make([]byte, 100)
	for k := range c {
		c[k] = byte(i*31 + k)
	}
	return c
}

type script struct {
	Name     string
	ALPN     []string
	Recs     []rec
	Cut      int  // >=0: send only the first Cut bytes of the response
	CloseAt  int  // 0: normal (write all, close), 1: close before the handshake, 2: close right after the handshake
	KeepOpen bool // do not close after writing (the client must not depend on EOF)
	// Seg: how the peer hands the response to TLS. 0: one write; -1: one write per
	// record; n>0: writes of n bytes (each write is a TLS record of its own, i.e.
	// one read on the client side).
	Seg int
}

const (
	rEOM, rNext, rErr, rWarn, rAEAD, rCookie, rServer, rPort = 0, 1, 2, 3, 4, 5, 6, 7
)

func baseRecs(ncookies int) []rec {
	rs := []rec{{rNext, true, u16(0)}, {rAEAD, true, u16(15)}, {rServer, false, []byte("10.0.0.7")}, {rPort, false, u16(4123)}}
	for i := 0; i < ncookies; i++ {
		rs = append(rs, rec{rCookie, false, cookie(i)})
	}
	return append(rs, rec{rEOM, true, nil})
}

func without(rs []rec, i int) []rec { return append(append([]rec{}, rs[:i]...), rs[i+1:]...) }
func insert(rs []rec, i int, r rec) []rec {
	return append(append(append([]rec{}, rs[:i]...), r), rs[i:]...)
}

// scripts: the valid exchange and every single deviation from it.
func scripts(thorough bool) []script {
	ok := []string{"ntske/1"}
	base := baseRecs(2)
	ss := []script{{Name: "valid", ALPN: ok, Recs: base, Cut: -1}}
	ss = append(ss,
		script{Name: "valid-keepopen", ALPN: ok, Recs: base, Cut: -1, KeepOpen: true},
		script{Name: "alpn-none", ALPN: nil, Recs: base, Cut: -1},
		script{Name: "alpn-other", ALPN: []string{"h2"}, Recs: base, Cut: -1},
		script{Name: "close-before-handshake", ALPN: ok, Recs: base, Cut: -1, CloseAt: 1},
		script{Name: "close-after-handshake", ALPN: ok, Recs: base, Cut: -1, CloseAt: 2},
	)
	for _, n := range []int{0, 1, 8, 9} {
		ss = append(ss, script{Name: fmt.Sprintf("cookies=%d", n), ALPN: ok, Recs: baseRecs(n), Cut: -1})
	}
	// fixed-size records with another body length, and what may hide behind them:
	// the record stream must be read by its length fields
	bl := func(name string, rs []rec) { ss = append(ss, script{Name: name, ALPN: ok, Recs: rs, Cut: -1}) }
	with := func(i int, r rec) []rec { o := append([]rec{}, base...); o[i] = r; return o }
	bl("aead-empty", with(1, rec{rAEAD, true, nil}))
	bl("aead-list-15-16", with(1, rec{rAEAD, true, []byte{0, 15, 0, 16}}))
	bl("aead-list-16-15", with(1, rec{rAEAD, true, []byte{0, 16, 0, 15}}))
	bl("aead-three-bytes", with(1, rec{rAEAD, true, []byte{0, 15, 0}}))
	bl("nextproto-empty", with(0, rec{rNext, true, nil}))
	bl("nextproto-list", with(0, rec{rNext, true, []byte{0, 0, 0, 1}}))
	bl("port-empty", with(3, rec{rPort, false, nil}))
	bl("port-four-bytes", with(3, rec{rPort, false, []byte{0x10, 0x1b, 0, 0}}))
	// no algorithm selected and no cookie record at all, but an unknown optional
	// record whose body looks like "algorithm 15" and a cookie when read out of step
	bl("aead-empty-then-unknown-15", []rec{{rNext, true, u16(0)}, {rAEAD, true, nil}, {15, false, []byte{0x00, 0x03, 0xde, 0xad, 0x01}}, {rEOM, true, nil}})
	// cookies no NTS request can carry
	hugeRecs := []rec{{rNext, true, u16(0)}, {rAEAD, true, u16(15)}, {rCookie, false, make([]byte, 1000)}, {rCookie, false, make([]byte, 1000)}, {rEOM, true, nil}}
	bl("cookies-1000-bytes", hugeRecs)
	bl("cookies-1000-and-100-bytes", []rec{{rNext, true, u16(0)}, {rAEAD, true, u16(15)}, {rCookie, false, make([]byte, 1000)}, {rCookie, false, cookie(3)}, {rEOM, true, nil}})
	// the same valid response however the transport segments it
	for _, seg := range []int{-1, 1, 7, 64, 150} {
		ss = append(ss, script{Name: fmt.Sprintf("valid-segmented=%d", seg), ALPN: ok, Recs: baseRecs(8), Cut: -1, Seg: seg})
	}
	// more cookie material than one buffer of the client's reader holds
	big := []rec{{rNext, true, u16(0)}, {rAEAD, true, u16(15)}}
	for i := 0; i < 8; i++ {
		c := make([]byte, 700)
		for k := range c {
			c[k] = byte(i*53 + k*7)
		}
		big = append(big, rec{rCookie, false, c})
	}
	big = append(big, rec{rEOM, true, nil})
	ss = append(ss, script{Name: "valid-large-cookies", ALPN: ok, Recs: big, Cut: -1}, script{Name: "valid-large-cookies-segmented", ALPN: ok, Recs: big, Cut: -1, Seg: -1})
	names := []string{"nextproto", "aead", "server", "port", "cookie0", "cookie1", "eom"}
	for i := range base {
		ss = append(ss, script{Name: "drop-" + names[i], ALPN: ok, Recs: without(base, i), Cut: -1})
	}
	repl := func(name string, i int, r rec) {
		rs := append([]rec{}, base...)
		rs[i] = r
		ss = append(ss, script{Name: name, ALPN: ok, Recs: rs, Cut: -1})
	}
	repl("aead=16", 1, rec{rAEAD, true, u16(16)})
	repl("aead=0", 1, rec{rAEAD, true, u16(0)})
	repl("nextproto=1", 0, rec{rNext, true, u16(1)})
	repl("server=name", 2, rec{rServer, false, []byte("10.0.0.8")})
	repl("port=123", 3, rec{rPort, false, u16(123)})
	ins := map[string]rec{
		"warning":          {rWarn, true, u16(0)},
		"error0":           {rErr, true, u16(0)},
		"error1":           {rErr, true, u16(1)},
		"error2":           {rErr, true, u16(2)},
		"error7":           {rErr, true, u16(7)},
		"unknown-critical": {0x4abc & 0x7fff, true, []byte{1, 2, 3}},
		"unknown-optional": {0x4abc & 0x7fff, false, []byte{1, 2, 3}},
		"unknown-empty":    {0x7ff0, false, nil},
	}
	for _, n := range []string{"warning", "error0", "error1", "error2", "error7", "unknown-critical", "unknown-optional", "unknown-empty"} {
		for i := 0; i <= len(base); i++ {
			ss = append(ss, script{Name: fmt.Sprintf("insert-%s@%d", n, i), ALPN: ok, Recs: insert(base, i, ins[n]), Cut: -1})
		}
	}
	for i := 0; i+1 < len(base); i++ {
		rs := append([]rec{}, base...)
		rs[i], rs[i+1] = rs[i+1], rs[i]
		ss = append(ss, script{Name: fmt.Sprintf("swap@%d", i), ALPN: ok, Recs: rs, Cut: -1})
	}
	total := 0
	for _, r := range base {
		total += len(r.bytes())
	}
	step := 1
	if !thorough {
		step = 1
	}
	for c := 0; c < total; c += step {
		ss = append(ss, script{Name: fmt.Sprintf("cut@%d", c), ALPN: ok, Recs: base, Cut: c})
	}
	return ss
}

// doubleScripts (thorough): every ordered pair of record-level deviations
// (drop, replace, insert, swap) applied to the valid response.
func doubleScripts() []script {
	ok := []string{"ntske/1"}
	base := baseRecs(2)
	type op struct {
		name string
		f    func([]rec) []rec
	}
	var ops []op
	names := []string{"nextproto", "aead", "server", "port", "cookie0", "cookie1", "eom"}
	for i := range base {
		ops = append(ops, op{"drop-" + names[i], func(rs []rec) []rec {
			if i >= len(rs) {
				return rs
			}
			return without(rs, i)
		}})
	}
	repl := func(name string, i int, r rec) {
		ops = append(ops, op{name, func(rs []rec) []rec {
			if i >= len(rs) {
				return rs
			}
			out := append([]rec{}, rs...)
			out[i] = r
			return out
		}})
	}
	repl("aead=16", 1, rec{rAEAD, true, u16(16)})
	repl("aead=0", 1, rec{rAEAD, true, u16(0)})
	repl("nextproto=1", 0, rec{rNext, true, u16(1)})
	repl("server=name", 2, rec{rServer, false, []byte("10.0.0.8")})
	repl("port=123", 3, rec{rPort, false, u16(123)})
	ins := []struct {
		n string
		r rec
	}{
		{"warning", rec{rWarn, true, u16(0)}}, {"error0", rec{rErr, true, u16(0)}}, {"error1", rec{rErr, true, u16(1)}},
		{"unknown-critical", rec{0x4abc & 0x7fff, true, []byte{1, 2, 3}}}, {"unknown-optional", rec{0x4abc & 0x7fff, false, []byte{1, 2, 3}}},
		{"unknown-empty", rec{0x7ff0, false, nil}}, {"eom", rec{rEOM, true, nil}}, {"cookie", rec{rCookie, false, cookie(5)}}, {"aead15", rec{rAEAD, true, u16(15)}},
	}
	for _, in := range ins {
		for i := 0; i <= len(base); i++ {
			ops = append(ops, op{fmt.Sprintf("insert-%s@%d", in.n, i), func(rs []rec) []rec { return insert(rs, min(i, len(rs)), in.r) }})
		}
	}
	for i := 0; i+1 < len(base); i++ {
		ops = append(ops, op{fmt.Sprintf("swap@%d", i), func(rs []rec) []rec {
			if i+1 >= len(rs) {
				return rs
			}
			out := append([]rec{}, rs...)
			out[i], out[i+1] = out[i+1], out[i]
			return out
		}})
	}
	seen := map[string]bool{}
	var ss []script
	for _, a := range ops {
		for _, b := range ops {
			rs := b.f(a.f(base))
			var stream []byte
			for _, r := range rs {
				stream = append(stream, r.bytes()...)
			}
			if seen[string(stream)] {
				continue
			}
			seen[string(stream)] = true
			ss = append(ss, script{Name: a.name + "+" + b.name, ALPN: ok, Recs: rs, Cut: -1})
		}
	}
	return ss
}

type expectation struct {
	ok      bool
	cookies [][]byte
	server  string
	port    uint16
	// lenient: the stream contains a malformed record the statement does not speak
	// about; the exchange may be refused, but if it succeeds everything else holds
	lenient  bool
	unusable int
}

// maxUsableCookie: the longest cookie a request of nts.MaxPacketLen bytes can carry
// next to the header, a 32-byte unique identifier and the authenticator.
const maxUsableCookie = 1024 - 48 - 36 - 40 - 4

// expect evaluates the statement's success condition on a script.
func expect(sc script) expectation {
	var e expectation
	if sc.CloseAt != 0 || len(sc.ALPN) != 1 || sc.ALPN[0] != "ntske/1" {
		return e
	}
	var stream []byte
	for _, r := range sc.Recs {
		stream = append(stream, r.bytes()...)
	}
	if sc.Cut >= 0 && sc.Cut < len(stream) {
		stream = stream[:sc.Cut]
	}
	e.server, e.port = "10.0.0.1", 123
	algo := -1
	for len(stream) >= 4 {
		t := binary.BigEndian.Uint16(stream)
		l := int(binary.BigEndian.Uint16(stream[2:]))
		crit := t&(1<<15) != 0
		t &^= 1 << 15
		if len(stream) < 4+l {
			return expectation{}
		}
		body := stream[4 : 4+l]
		stream = stream[4+l:]
		switch t {
		case rEOM:
			e.ok = algo == 15 && len(e.cookies) >= 1
			return e
		case rNext:
			if len(body) < 2 || len(body)%2 != 0 {
				e.lenient = true
			}
		case rAEAD:
			// the peer selects exactly one algorithm
			algo = -2
			if len(body) == 2 {
				algo = int(binary.BigEndian.Uint16(body))
			} else if len(body) > 2 && len(body)%2 == 0 {
				// a list (what a client sends, not what a server should answer): taking
				// AES-SIV-CMAC-256 from it or refusing the exchange are both acceptable
				for i := 0; i+1 < len(body); i += 2 {
					if binary.BigEndian.Uint16(body[i:]) == 15 {
						algo, e.lenient = 15, true
					}
				}
			}
		case rCookie:
			if len(body) > maxUsableCookie {
				e.unusable++ // cannot be sent in any NTS request (the client must refuse to use it, not crash)
			}
			e.cookies = append(e.cookies, body)
		case rServer:
			e.server = string(body)
		case rPort:
			if len(body) != 2 {
				e.lenient = true // malformed: refusing the exchange and reading the first two bytes are both acceptable
				if len(body) < 2 {
					break
				}
			}
			e.port = binary.BigEndian.Uint16(body)
		case rErr:
			return expectation{}
		default:
			if crit {
				return expectation{}
			}
		}
	}
	return expectation{} // stream ended without end-of-message
}

type peerState struct {
	c2s, s2c  []byte
	handshake bool
	conns     int
}

// servePeer runs one scripted TLS server connection.
func servePeer(w *world.World, sc script, conn *vnet.StreamConn, ps *peerState) {
	ps.conns++
	if sc.CloseAt == 1 {
		conn.Close()
		return
	}
	tc := tls.Server(conn, kit.ServerTLS(sc.ALPN...))
	if err := tc.Handshake(); err != nil {
		conn.Close()
		return
	}
	ps.handshake = true
	cs := tc.ConnectionState()
	ps.s2c, _ = cs.ExportKeyingMaterial("EXPORTER-network-time-security", []byte{0, 0, 0, 15, 1}, 32)
	ps.c2s, _ = cs.ExportKeyingMaterial("EXPORTER-network-time-security", []byte{0, 0, 0, 15, 0}, 32)
	if sc.CloseAt == 2 {
		tc.Close()
		return
	}
	// read the client's request up to its end-of-message record
	var hdr [4]byte
	for {
		if _, err := io.ReadFull(tc, hdr[:]); err != nil {
			tc.Close()
			return
		}
		l := int(binary.BigEndian.Uint16(hdr[2:]))
		if l > 0 {
			if _, err := io.ReadFull(tc, make([]byte, l)); err != nil {
				tc.Close()
				return
			}
		}
		if binary.BigEndian.Uint16(hdr[:])&^(1<<15) == rEOM {
			break
		}
	}
	var stream []byte
	for _, r := range sc.Recs {
		stream = append(stream, r.bytes()...)
	}
	if sc.Cut >= 0 && sc.Cut < len(stream) {
		stream = stream[:sc.Cut]
	}
	switch {
	case len(stream) == 0:
	case sc.Seg == 0:
		tc.Write(stream)
	case sc.Seg < 0:
		rest := stream
		for _, r := range sc.Recs {
			n := min(len(r.bytes()), len(rest))
			if n > 0 {
				tc.Write(rest[:n])
			}
			rest = rest[n:]
		}
	default:
		for rest := stream; len(rest) > 0; {
			n := min(sc.Seg, len(rest))
			tc.Write(rest[:n])
			rest = rest[n:]
		}
	}
	if !sc.KeepOpen {
		tc.Close()
	}
}

func newFetcher(w *world.World) *ntske.Fetcher {
	return &ntske.Fetcher{Log: w.Log, TLSConfig: kit.ClientTLS(), Port: "4460"}
}

// fetch runs FetchData on a client thread until it returns.
func fetch(w *world.World, x *mc.X, f *ntske.Fetcher) (ntske.Data, error) {
	var d ntske.Data
	var err error
	th := w.Go("fetch", func() { d, err = f.FetchData(context.Background()) })
	for i := 0; i < 50 && !th.Finished(); i++ {
		w.Settle()
		if !th.Finished() {
			w.Advance(6 * 1e9) // dial timeout / blocked reads
		}
	}
	w.CheckPanics()
	if !th.Finished() {
		x.Failf("fetch-hangs", "FetchData did not return")
	}
	return d, err
}

// history: a sequence of FetchData calls on one fetcher, each against its own script.
func history(r *mc.Run, seqs [][]script) func(x *mc.X) {
	return func(x *mc.X) {
		world.Run(r.T, x, func(w *world.World) {
			var hs []script
			for i, alts := range seqs {
				hs = append(hs, alts[x.Choose(len(alts), fmt.Sprintf("script%d", i))])
			}
			f := newFetcher(w)
			ps := &peerState{}
			cur := 0
			w.Net.OnDial = func(hostport string, sconn *vnet.StreamConn) error {
				sc := hs[cur]
				if hostport != "ntske.test:4460" {
					return errors.New("unexpected dial target " + hostport)
				}
				w.Go("peer", func() { servePeer(w, sc, sconn, ps) })
				return nil
			}
			for i, sc := range hs {
				cur = i
				x.Logf("FetchData against %s", sc.Name)
				before := ps.conns
				pre := f.VerifData()
				if len(pre.Cookie) != 0 {
					// the pool of a preceding success is still being used: no exchange due
					d, err := fetch(w, x, f)
					if err != nil || ps.conns != before {
						x.Failf("pool-not-used", "pool of %d cookies: err=%v, new connections %d", len(pre.Cookie), err, ps.conns-before)
					}
					_ = d
					x.Transitions++
					continue
				}
				*ps = peerState{conns: ps.conns}
				d, err := fetch(w, x, f)
				x.Transitions++
				e := expect(sc)
				if ps.conns != before+1 {
					x.Failf("no-new-exchange-after-failure", "call %d (%s) with an empty pool opened %d connections (history %s)", i, sc.Name, ps.conns-before, names(hs[:i+1]))
				}
				if e.ok && e.lenient && err != nil {
					x.Observe("refused-malformed")
					continue
				}
				if e.ok != (err == nil) {
					if err == nil {
						x.Failf("bad-offer-accepted", "script %s: key exchange succeeded (algo=%d cookies=%d server=%q)", sc.Name, d.Algo, len(d.Cookie), d.Server)
					}
					x.Failf("valid-offer-refused", "script %s: %v", sc.Name, err)
				}
				if err != nil {
					left := f.VerifData()
					if len(left.Cookie) != 0 {
						// state that a later request would use
						x.Failf("failed-exchange-leaves-state", "after the failed exchange %s the fetcher still holds %d cookies (keys set: %v)", sc.Name, len(left.Cookie), left.C2sKey != nil)
					}
					x.Observe("fail")
					continue
				}
				if !bytes.Equal(d.C2sKey, ps.c2s) || !bytes.Equal(d.S2cKey, ps.s2c) || len(d.C2sKey) != 32 {
					x.Failf("keys-disagree", "client C2S/S2C differ from the server's exporter values")
				}
				if bytes.Equal(d.C2sKey, d.S2cKey) {
					x.Failf("keys-not-distinct", "C2S == S2C")
				}
				if len(d.Cookie) != len(e.cookies) {
					x.Failf("pool-not-cookies-issued", "script %s issued %d cookies, pool has %d", sc.Name, len(e.cookies), len(d.Cookie))
				}
				for k := range e.cookies {
					if !bytes.Equal(d.Cookie[k], e.cookies[k]) {
						x.Failf("pool-not-cookies-issued", "cookie %d differs", k)
					}
				}
				if d.Server != e.server || d.Port != e.port {
					x.Failf("ntp-server-address", "script %s names %s:%d, client will use %s:%d", sc.Name, e.server, e.port, d.Server, d.Port)
				}
				x.Observe("ok", len(d.Cookie), d.Server, d.Port)
				// drain the pool so that the next call has to re-key
				for len(f.VerifData().Cookie) > 0 {
					f.FetchData(context.Background())
				}
			}
		})
	}
}

func names(hs []script) string {
	s := ""
	for _, h := range hs {
		s += h.Name + " "
	}
	return s
}

// realHandler: the repository's handleKeyExchangeTLS as peer, then an NTS
// protected exchange of the real IPClient that must go to the named server.
func realHandler(r *mc.Run) func(x *mc.X) {
	return func(x *mc.X) {
		world.Run(r.T, x, func(w *world.World) {
			prov := ntske.NewProvider()
			f := newFetcher(w)
			var c2s, s2c []byte
			w.Net.OnDial = func(hostport string, sconn *vnet.StreamConn) error {
				w.Go("ntske-server", func() {
					tc := tls.Server(sconn, kit.ServerTLS("ntske/1"))
					if err := tc.Handshake(); err != nil {
						return
					}
					cs := tc.ConnectionState()
					s2c, _ = cs.ExportKeyingMaterial("EXPORTER-network-time-security", []byte{0, 0, 0, 15, 1}, 32)
					c2s, _ = cs.ExportKeyingMaterial("EXPORTER-network-time-security", []byte{0, 0, 0, 15, 0}, 32)
					server.VerifHandleKeyExchangeTLS(context.Background(), w.Log, tc, 123, prov)
				})
				return nil
			}
			d, err := fetch(w, x, f)
			x.Transitions++
			if err != nil {
				x.Failf("valid-offer-refused", "exchange with the project's own handler failed: %v", err)
			}
			if len(d.Cookie) != 8 || d.Algo != ntske.AES_SIV_CMAC_256 || d.Server != "10.0.0.1" || d.Port != 123 {
				x.Failf("server-message", "handler sent algo=%d cookies=%d server=%q port=%d", d.Algo, len(d.Cookie), d.Server, d.Port)
			}
			if !bytes.Equal(d.C2sKey, c2s) || !bytes.Equal(d.S2cKey, s2c) {
				x.Failf("keys-disagree", "client and handler keys differ")
			}
			key := prov.Current()
			seen := map[string]bool{}
			for i, ck := range d.Cookie {
				if seen[string(ck)] {
					x.Failf("cookie-repeated", "cookie %d issued twice", i)
				}
				seen[string(ck)] = true
				var ec ntske.EncryptedServerCookie
				if err := ec.Decode(ck); err != nil {
					x.Failf("cookie-undecodable", "%v", err)
				}
				sc, err := ec.Decrypt(key.Value)
				if err != nil || int(ec.ID) != key.ID {
					x.Failf("cookie-not-under-current-key", "cookie %d: id %d err %v", i, ec.ID, err)
				}
				if !bytes.Equal(sc.C2S, c2s) || !bytes.Equal(sc.S2C, s2c) || sc.Algo != ntske.AES_SIV_CMAC_256 {
					x.Failf("cookie-wrong-keys", "cookie %d does not open to the session keys", i)
				}
			}
			x.Observe("real", len(d.Cookie))
		})
	}
}

// destination: after an exchange naming server/port, the NTS request of the real IPClient goes there.
func destination(r *mc.Run, sc script) func(x *mc.X) {
	return func(x *mc.X) {
		world.Run(r.T, x, func(w *world.World) {
			ps := &peerState{}
			w.Net.OnDial = func(hostport string, sconn *vnet.StreamConn) error {
				w.Go("peer", func() { servePeer(w, sc, sconn, ps) })
				return nil
			}
			c := &client.IPClient{Log: w.Log}
			c.Auth.Enabled = true
			c.Auth.NTSKEFetcher = *newFetcher(w)
			ctx, cancel := context.WithTimeout(context.Background(), 1e9)
			defer cancel()
			th := w.Go("client", func() {
				client.MeasureClockOffsetIP(ctx, w.Log, c, &net.UDPAddr{IP: net.IPv4(10, 0, 0, 2)}, &net.UDPAddr{IP: net.IPv4(10, 0, 0, 1), Port: 123})
			})
			for i := 0; i < 20 && !th.Finished(); i++ {
				w.Settle()
				if w.Net.NumSent() > 0 {
					break
				}
				w.Advance(1e8)
			}
			w.CheckPanics()
			x.Transitions++
			e := expect(sc)
			sent := w.Net.SentSince(0)
			if (!e.ok || (len(e.cookies) > 0 && len(e.cookies[0]) > maxUsableCookie)) && len(sent) == 0 {
				x.Observe("exchange refused")
				w.Advance(2e9)
				return
			}
			if len(sent) != 1 {
				x.Failf("no-nts-request", "client sent %d datagrams after key exchange %s", len(sent), sc.Name)
			}
			want := fmt.Sprintf("%s:%d", e.server, e.port)
			if sent[0].To.String() != want {
				x.Failf("ntp-server-address", "key exchange %s names %s, the NTP request went to %s", sc.Name, want, sent[0].To)
			}
			x.Observe(want)
			w.Advance(2e9)
		})
	}
}

func TestCheck(t *testing.T) {
	mc.Main(t, "C20", func(r *mc.Run) {
		ss := scripts(r.Thorough())
		// 1. every script alone
		r.Explore(mc.Config{Name: "single", Bound: -1}, history(r, [][]script{ss}))
		// 2. histories: failure(s) then any script
		var distinct []script
		for _, s := range ss {
			switch s.Name {
			case "valid", "cookies=0", "cookies=1", "drop-eom", "drop-aead", "aead=16", "insert-error1@6", "insert-error2@4", "insert-unknown-critical@5", "insert-warning@3", "cut@150", "cut@260", "alpn-none", "close-after-handshake", "insert-unknown-optional@2":
				distinct = append(distinct, s)
			}
		}
		r.Explore(mc.Config{Name: "pairs", Bound: -1}, history(r, [][]script{distinct, ss}))
		r.Explore(mc.Config{Name: "triples", Bound: -1}, history(r, [][]script{distinct, distinct, distinct[:mc.Pick(r, 4, len(distinct))]}))
		if r.Thorough() {
			ds := doubleScripts()
			r.Extra["double_scripts"] = len(ds)
			r.Explore(mc.Config{Name: "double-deviation", Bound: -1}, history(r, [][]script{ds}))
		}
		// 3. the repository's own handler as peer
		r.Explore(mc.Config{Name: "real-handler", Bound: -1, ShardN: 1}, realHandler(r))
		// 4. destination of the following NTP request
		for _, s := range ss {
			if s.Name == "valid" || s.Name == "drop-server" || s.Name == "drop-port" || s.Name == "server=name" || s.Name == "port=123" || s.Name == "cookies-1000-bytes" || s.Name == "cookies-1000-and-100-bytes" || s.Name == "valid-large-cookies" {
				if r.Mine() || r.Replaying() {
					r.Explore(mc.Config{Name: "destination/" + s.Name, Bound: -1, ShardN: 1}, destination(r, s))
				}
			}
		}
		r.Extra["scripts"] = len(ss)
		r.Extra["rule"] = "scripted TLS 1.3 peer: the valid record sequence and every single deviation (each record dropped, replaced, adjacent records swapped, warning/error(0,1,2,7)/unknown critical/unknown optional records inserted at every position, 0/1/8/9 cookies, fixed-size records with empty / list / odd bodies and records hidden behind them, cookies of 1000 bytes (too long for any request), the valid response handed to TLS in one write, one write per record, or writes of 1/7/64/150 bytes, 8 cookies of 700 bytes (more than the client's read buffer), truncation at every byte, ALPN none/other, connection closed before/after the handshake, connection kept open; thorough: every ordered pair of record-level deviations); histories of 2 and 3 FetchData calls over 15 distinct scripts; the project's own key-exchange handler as peer; destination of the following NTS request"
	})
}
