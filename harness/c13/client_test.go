package c13

import (
	"bytes"
	"context"
	"fmt"
	"net"
	"net/netip"
	"time"

	"github.com/scionproto/scion/pkg/slayers"
	"github.com/scionproto/scion/pkg/snet"
	"github.com/scionproto/scion/pkg/spao"

	"example.com/scion-time/core/client"
	"example.com/scion-time/core/server"
	"example.com/scion-time/net/ntp"
	"example.com/scion-time/net/scion"
	"example.com/scion-time/net/udp"

	"verif.local/kit"
	"verif.local/mc"
	"verif.local/shim/vnet"
	"verif.local/world"
)

// clientSide: the response half of the property. A SCIONClient with packet
// authentication enabled queries the real, authenticating listener; the
// listener's genuine response is delivered as it is, with single flipped bits,
// or re-sent behind another UDP header and NTP response (so that the
// authenticator verifies over the trailing bytes only). An offset may only be
// computed from a response whose authenticator verifies over the bytes evaluated.
func clientSide(r *mc.Run) {
	type cin struct {
		Kind string `json:"kind"`
		Bit  int    `json:"bit"`
	}
	try := func(c cin) {
		x := &mc.X{}
		world.Run(r.T, x, func(w *world.World) {
			server.VerifResetTSS()
			sw := kit.NewSCIONWorld(w, kit.SrvHost, true, nil)
			flt := &kit.RecFilter{}
			sc := &client.SCIONClient{Log: w.Log, Filter: flt}
			sc.Auth.Enabled = true
			sc.Auth.DRKeyFetcher = scion.NewFetcher(sw.Daemon)
			local := udp.UDPAddr{IA: kit.CliIA, Host: &net.UDPAddr{IP: kit.CliHost.AsSlice()}}
			remote := udp.UDPAddr{IA: kit.SrvIA, Host: &net.UDPAddr{IP: kit.SrvHost.AsSlice(), Port: kit.SrvPort}}
			path := kit.PathSpec{Kind: "scion", Segs: []int{2, 2}}.SnetPath(kit.CliIA, kit.SrvIA, net.UDPAddrFromAddrPort(kit.Router))
			ctx, cancel := context.WithTimeout(context.Background(), time.Second)
			var err error
			th := w.Go("client", func() {
				_, _, err = client.MeasureClockOffsetSCION(ctx, w.Log, []*client.SCIONClient{sc}, local, remote, []snet.Path{path})
			})
			defer func() {
				// leave no goroutine of the round behind when the bubble ends
				cancel()
				for i := 0; i < 10 && !th.Finished(); i++ {
					w.Advance(time.Second)
				}
				w.Settle()
			}()
			w.Settle()
			w.CheckPanics()
			var sock *vnet.UDPConn
			for _, s := range w.Net.Open() {
				if s != sw.Svc && s != sw.EH && !s.Closed() && s.Reading.Load() {
					sock = s
				}
			}
			reqs := w.Net.SentSince(0)
			if sock == nil || len(reqs) == 0 {
				r.Fail("client", "harness", "client sent no request", c)
				return
			}
			req := reqs[len(reqs)-1]
			out := sw.Send(sw.Svc, kit.Router, req.Data)
			if len(out) != 1 {
				r.Fail("client", "harness", fmt.Sprintf("listener wrote %d datagrams for the client's authenticated request", len(out)), c)
				return
			}
			gen, perr := kit.Parse(out[0].Data)
			if perr != nil || gen.UDP == nil || gen.E2E == nil {
				r.Fail("client", "harness", fmt.Sprintf("reply of the listener: %v", perr), c)
				return
			}
			b := bytes.Clone(out[0].Data)
			wantAccept := true
			var forged []byte
			switch c.Kind {
			case "bitflip":
				if c.Bit/8 >= len(b) {
					return
				}
				b[c.Bit/8] ^= 1 << (c.Bit % 8)
				wantAccept = false
			case "trailing":
				// another NTP response (server clock one hour ahead) in front of the genuine one
				forged = bytes.Clone(gen.UDP.Payload)
				var p ntp.Packet
				ntp.DecodePacket(&p, forged)
				p.ReceiveTime.Seconds += 3600
				p.TransmitTime.Seconds += 3600
				forged = forged[:0]
				ntp.EncodePacket(&forged, &p)
				sh, _ := netip.AddrFromSlice(gen.SCION.RawSrcAddr)
				dh, _ := netip.AddrFromSlice(gen.SCION.RawDstAddr)
				pk := &kit.Pkt{SrcIA: gen.SCION.SrcIA, DstIA: gen.SCION.DstIA, SrcHost: sh, DstHost: dh, RawPath: gen.RawPath, PathType: gen.SCION.PathType,
					L4: "udp", SrcPort: gen.UDP.SrcPort, DstPort: gen.UDP.DstPort, Payload: gen.UDP.Payload, E2E: gen.E2E.Options,
					Front: kit.UDPFront(gen.UDP.SrcPort, gen.UDP.DstPort, forged)}
				b = pk.Bytes()
				wantAccept = false
			}
			r.Journal(fmt.Sprintf("client %+v", c))
			r.Evals++
			r.Distinct++
			sock.Deliver(&vnet.Datagram{From: kit.Router, To: sock.Local(), Data: b, RxTime: w.Clock.Peek()})
			w.Settle()
			w.CheckPanics()
			accepted := len(flt.Calls) > 0
			for i := 0; i < 3 && !th.Finished(); i++ {
				w.Advance(time.Second)
			}
			w.CheckPanics()
			switch {
			case c.Kind == "genuine" && (!accepted || err != nil):
				r.Fail("client", "genuine-authenticated-response-rejected", fmt.Sprintf("err=%v", err), c)
			case c.Kind == "trailing" && accepted:
				tu := flt.Calls[0]
				r.Fail("client", "unverified-authenticator-accepted", fmt.Sprintf("the client computed offset %v from a response placed in front of the authenticated bytes", ntp.ClockOffset(tu.T0, tu.T1, tu.T2, tu.T3)), c)
			case c.Kind == "bitflip" && accepted:
				// acceptance is in question only if what was delivered still carries an
				// authenticator with the expected SPI and algorithm; then it must verify
				// over the delivered packet
				pr, e := kit.Parse(b)
				if e != nil || pr.UDP == nil || pr.E2E == nil {
					return
				}
				ao, e := pr.E2E.FindOption(slayers.OptTypeAuthenticator)
				if e != nil || len(ao.OptData) != scion.PacketAuthOptDataLen {
					return
				}
				if spi, algo := scion.PacketAuthOptMetadata(ao); spi != scion.PacketAuthSPIServer || algo != scion.PacketAuthAlgorithm {
					return
				}
				key := sw.Daemon.HostHostKey(kit.SrvIA, kit.CliIA, kit.SrvHost.String(), kit.CliHost.String())
				mac := make([]byte, 16)
				_, e2 := spao.ComputeAuthCMAC(spao.MACInput{Key: key, Header: slayers.PacketAuthOption{EndToEndOption: ao}, ScionLayer: &pr.SCION, PldType: slayers.L4UDP,
					Pld: append(append([]byte{}, pr.UDP.Contents...), pr.UDP.Payload...)}, make([]byte, spao.MACBufferSize), mac)
				if e2 == nil && bytes.Equal(mac, scion.PacketAuthOptMAC(ao)) {
					return
				}
				r.Fail("client", "unverified-authenticator-accepted", fmt.Sprintf("bit %d flipped: the authenticator does not verify over the delivered response but an offset was computed", c.Bit), c)
			}
			_ = wantAccept
		})
	}
	try(cin{Kind: "genuine"})
	try(cin{Kind: "trailing"})
	// every bit of the genuine response (length known after the first run: probe generously)
	for bit := 0; bit < 8*400; bit++ {
		try(cin{Kind: "bitflip", Bit: bit})
	}
}
