// C13: SCION packet authentication and reply addressing are sound end to end
// (DESIGN.md C13). Crafted SCION packets (built with the SCION library) go
// through the real runSCIONServer loops on the service port and the end-host
// port over the in-memory network; replies are parsed with the library.
package c13

import (
	"bytes"
	"fmt"
	"net/netip"
	"testing"
	"time"

	"github.com/scionproto/scion/pkg/slayers"
	"github.com/scionproto/scion/pkg/spao"

	"example.com/scion-time/core/server"
	"example.com/scion-time/net/ntp"
	"example.com/scion-time/net/scion"

	"verif.local/kit"
	"verif.local/mc"
	"verif.local/shim/vnet"
	"verif.local/world"
)

type in struct {
	Auth    bool   `json:"server_auth"`
	V6      bool   `json:"ipv6"`
	Path    string `json:"path"`
	L4      string `json:"l4"`
	DstPort int    `json:"dst_port"`
	Sock    string `json:"socket"`
	AuthOpt string `json:"authenticator"`
	HBH     bool   `json:"hop_by_hop_extension,omitempty"`
	Mut     int    `json:"mutation"`
}

func paths(thorough bool) []kit.PathSpec {
	ps := []kit.PathSpec{{Kind: "empty"}, {Kind: "onehop"}}
	for nseg := 1; nseg <= 3; nseg++ {
		for hops := 1; hops <= 3; hops++ {
			if !thorough && hops == 2 && nseg == 2 {
				continue
			}
			segs := make([]int, nseg)
			for i := range segs {
				segs[i] = hops
			}
			total := nseg * hops
			// every legal position: the info field index must match the hop field index
			hf := 0
			for inf := 0; inf < nseg; inf++ {
				for k := 0; k < hops; k++ {
					if thorough || hf == 0 || hf == total-1 || (inf == 1 && k == 0) {
						ps = append(ps, kit.PathSpec{Kind: "scion", Segs: segs, CurrINF: inf, CurrHF: hf})
					}
					hf++
				}
			}
		}
	}
	return ps
}

func run(r *mc.Run, srvAuth bool, only *in) {
	x := &mc.X{}
	world.Run(r.T, x, func(w *world.World) {
		server.VerifResetTSS()
		cliHost, srvHost := kit.CliHost, kit.SrvHost
		sw := kit.NewSCIONWorld(w, srvHost, srvAuth, nil)
		sw6 := kit.NewSCIONWorld(w, netip.MustParseAddr("fd00::1"), srvAuth, nil)
		scen := fmt.Sprintf("auth=%v", srvAuth)
		restart := func(s *kit.SCIONWorld, sock *vnet.UDPConn) {
			if sock == s.Svc {
				s.Svc = s.Start(kit.SrvPort)
			} else {
				s.EH = s.Start(scion.EndhostPort)
			}
		}
		try := func(i in) {
			s := sw
			ch, sh := cliHost, srvHost
			if i.V6 {
				s = sw6
				ch, sh = netip.MustParseAddr("fd00::2"), netip.MustParseAddr("fd00::1")
			}
			var ps kit.PathSpec
			for _, p := range paths(true) {
				if p.String() == i.Path {
					ps = p
				}
			}
			hdr := kit.ClientHeader(w.Clock.Peek())
			payload := hdr
			if i.L4 != "udp" {
				payload = []byte("echo-payload-0123456789")
			}
			pk := &kit.Pkt{SrcIA: kit.CliIA, DstIA: kit.SrvIA, SrcHost: ch, DstHost: sh, Path: ps, L4: i.L4, SrcPort: 40123, DstPort: uint16(i.DstPort), Payload: payload, TrafficClass: 0x28, HBH: i.HBH}
			key := s.Daemon.HostHostKey(kit.SrvIA, kit.CliIA, sh.String(), ch.String())
			macOK := false
			expectSPI := false
			switch i.AuthOpt {
			case "valid":
				pk.AuthKey, pk.AuthSPI = key, scion.PacketAuthSPIClient
				macOK, expectSPI = true, true
			case "wrong-key":
				pk.AuthKey, pk.AuthSPI = bytes.Repeat([]byte{0x55}, 16), scion.PacketAuthSPIClient
				expectSPI = true
			case "server-spi":
				pk.AuthKey, pk.AuthSPI = key, scion.PacketAuthSPIServer
			case "valid-over-trailing-bytes":
				// a captured, genuinely authenticated request, re-sent with another UDP
				// header and another NTP request in front of it: the authenticator verifies
				// over the trailing (captured) bytes, not over what the listener would serve
				pk.AuthKey, pk.AuthSPI = key, scion.PacketAuthSPIClient
				other := kit.ClientHeader(w.Clock.Peek().Add(-time.Hour))
				other[2] = 9
				pk.Front = kit.UDPFront(40123, uint16(i.DstPort), other)
				expectSPI = true
			}
			b := pk.Bytes()
			if i.AuthOpt == "valid" && i.Mut > 0 {
				// flip one bit somewhere in the packet: MAC bits, metadata, covered header / payload bytes
				pos := i.Mut - 1
				if pos/8 >= len(b) {
					return
				}
				b[pos/8] ^= 1 << (pos % 8)
				macOK = false
			}
			sock := s.Svc
			if i.Sock == "endhost" {
				sock = s.EH
			}
			r.Journal(fmt.Sprintf("%+v", i))
			r.Evals++
			r.Distinct++
			out := s.Send(sock, kit.Router, b)
			if len(w.Panics) > 0 {
				p := w.Panics[0]
				w.Panics = nil
				f := mc.PanicFailure(p.Value, p.Stack)
				if i.Mut == 0 {
					r.Fail(scen, f.Signature, f.Message, i)
				}
				restart(s, sock)
				return
			}
			if i.Mut > 0 {
				// a mutated packet with the expected SPI/algorithm must not be served;
				// mutations may also change the SPI, the addressing or make the packet undecodable
				pr, err := kit.Parse(b)
				served := len(out) > 0
				if served && err == nil && pr.E2E != nil {
					if ao, e := pr.E2E.FindOption(slayers.OptTypeAuthenticator); e == nil && len(ao.OptData) == scion.PacketAuthOptDataLen {
						spi, algo := scion.PacketAuthOptMetadata(ao)
						if spi == scion.PacketAuthSPIClient && algo == scion.PacketAuthAlgorithm && srvAuth && pr.UDP != nil && int(pr.UDP.DstPort) == kit.SrvPort {
							// recompute the MAC over what the server received
							mac := make([]byte, 16)
							k2 := s.Daemon.HostHostKey(pr.SCION.DstIA, pr.SCION.SrcIA, netipOf(pr.SCION.RawDstAddr), netipOf(pr.SCION.RawSrcAddr))
							_, e2 := spao.ComputeAuthCMAC(spao.MACInput{Key: k2, Header: slayers.PacketAuthOption{EndToEndOption: ao}, ScionLayer: &pr.SCION, PldType: slayers.L4UDP, Pld: append(append([]byte{}, pr.UDP.Contents...), pr.UDP.Payload...)}, make([]byte, spao.MACBufferSize), mac)
							if e2 == nil && !bytes.Equal(mac, scion.PacketAuthOptMAC(ao)) {
								r.Fail(scen, "unverified-authenticator-served", fmt.Sprintf("bit %d flipped: the authenticator does not verify over the received packet but the request was served", i.Mut-1), i)
							}
						}
					}
				}
				return
			}
			// ---- unmutated packets: full expectation
			serveNTP := i.L4 == "udp" && i.DstPort == kit.SrvPort
			forward := i.L4 == "udp" && i.DstPort != kit.SrvPort && i.Sock == "endhost" && i.DstPort != scion.EndhostPort
			scmpReply := i.L4 == "scmp-echo" || i.L4 == "scmp-traceroute"
			if serveNTP && srvAuth && expectSPI && !macOK {
				serveNTP = false
			}
			want := 0
			if serveNTP || forward || scmpReply {
				want = 1
			}
			if len(out) != want {
				sig := "unexpected-reply"
				if want == 1 {
					sig = "missing-reply"
				}
				if serveNTP == false && i.L4 == "udp" && i.DstPort == kit.SrvPort && len(out) > 0 {
					sig = "unverified-authenticator-served"
				}
				r.Fail(scen, sig, fmt.Sprintf("%+v: listener wrote %d datagrams, want %d", i, len(out), want), i)
				return
			}
			if want == 0 {
				return
			}
			o := out[0]
			pr, err := kit.Parse(o.Data)
			if err != nil {
				r.Fail(scen, "reply-undecodable", fmt.Sprintf("%+v: %v", i, err), i)
				return
			}
			if forward {
				if o.To != netip.AddrPortFrom(sh, uint16(i.DstPort)) {
					r.Fail(scen, "forwarded-to-wrong-address", fmt.Sprintf("%+v: forwarded to %v", i, o.To), i)
				}
				if pr.UDP == nil || !bytes.Equal(pr.UDP.Payload, payload) || pr.UDP.DstPort != uint16(i.DstPort) || pr.UDP.SrcPort != 40123 {
					r.Fail(scen, "forwarded-payload-changed", fmt.Sprintf("%+v: forwarded packet differs", i), i)
				}
				if pr.SCION.SrcIA != kit.CliIA || pr.SCION.DstIA != kit.SrvIA || !bytes.Equal(pr.RawPath, rawOf(ps)) {
					r.Fail(scen, "forwarded-header-changed", fmt.Sprintf("%+v", i), i)
				}
				return
			}
			// replies go back to the previous hop over the reversed path with everything swapped
			if o.To != kit.Router {
				r.Fail(scen, "reply-not-to-last-hop", fmt.Sprintf("%+v: reply written to %v, request came from %v", i, o.To, kit.Router), i)
			}
			if o.Sock != sock {
				r.Fail(scen, "reply-from-other-socket", fmt.Sprintf("%+v", i), i)
			}
			if pr.SCION.SrcIA != kit.SrvIA || pr.SCION.DstIA != kit.CliIA || netipOf(pr.SCION.RawSrcAddr) != sh.String() || netipOf(pr.SCION.RawDstAddr) != ch.String() {
				r.Fail(scen, "reply-addresses-not-swapped", fmt.Sprintf("%+v: reply %v,%s -> %v,%s", i, pr.SCION.SrcIA, netipOf(pr.SCION.RawSrcAddr), pr.SCION.DstIA, netipOf(pr.SCION.RawDstAddr)), i)
			}
			rev, rtype, rerr := ps.Reversed()
			if rerr == nil && (pr.SCION.PathType != rtype || !bytes.Equal(pr.RawPath, rev)) {
				r.Fail(scen, "reply-path-not-reversed", fmt.Sprintf("%+v: reply path %x (type %v), library reverse %x (type %v)", i, pr.RawPath, pr.SCION.PathType, rev, rtype), i)
			}
			if scmpReply {
				wantType := slayers.SCMPTypeEchoReply
				if i.L4 == "scmp-traceroute" {
					wantType = slayers.SCMPTypeTracerouteReply
				}
				if pr.SCMP == nil || pr.SCMP.TypeCode.Type() != wantType || !bytes.Equal(pr.SCMP.Payload, payload) {
					r.Fail(scen, "scmp-reply-wrong", fmt.Sprintf("%+v: SCMP reply %+v", i, pr.SCMP), i)
				}
				return
			}
			if pr.UDP == nil || pr.UDP.SrcPort != uint16(i.DstPort) || pr.UDP.DstPort != 40123 {
				r.Fail(scen, "reply-ports-not-swapped", fmt.Sprintf("%+v: reply ports %+v", i, pr.UDP), i)
				return
			}
			var np ntp.Packet
			if err := ntp.DecodePacket(&np, pr.UDP.Payload); err != nil || np.Mode() != ntp.ModeServer {
				r.Fail(scen, "reply-not-ntp", fmt.Sprintf("%+v: %v", i, err), i)
			}
			// a verified request is answered with an authenticator the client can verify
			hasAuth := false
			if pr.E2E != nil {
				if ao, e := pr.E2E.FindOption(slayers.OptTypeAuthenticator); e == nil {
					hasAuth = true
					spi, algo := scion.PacketAuthOptMetadata(ao)
					mac := make([]byte, 16)
					_, e2 := spao.ComputeAuthCMAC(spao.MACInput{Key: key, Header: slayers.PacketAuthOption{EndToEndOption: ao}, ScionLayer: &pr.SCION, PldType: slayers.L4UDP, Pld: append(append([]byte{}, pr.UDP.Contents...), pr.UDP.Payload...)}, make([]byte, spao.MACBufferSize), mac)
					if spi != scion.PacketAuthSPIServer || algo != scion.PacketAuthAlgorithm || e2 != nil || !bytes.Equal(mac, scion.PacketAuthOptMAC(ao)) {
						r.Fail(scen, "reply-authenticator-does-not-verify", fmt.Sprintf("%+v: spi=%#x algo=%d", i, spi, algo), i)
					}
				}
			}
			if want := srvAuth && macOK; hasAuth != want {
				r.Fail(scen, "reply-authenticator-presence", fmt.Sprintf("%+v: reply authenticated=%v, request verified=%v", i, hasAuth, want), i)
			}
		}
		if only != nil {
			try(*only)
			return
		}
		sampled := 0
		for _, v6 := range []bool{false, true} {
			for _, p := range paths(r.Thorough()) {
				for _, l4 := range []string{"udp", "scmp-echo", "scmp-traceroute", "scmp-error", "scmp-unknown", "none"} {
					for _, port := range []int{kit.SrvPort, scion.EndhostPort, 40555} {
						if l4 != "udp" && port != kit.SrvPort {
							continue
						}
						for _, sock := range []string{"service", "endhost"} {
							for _, ao := range []string{"absent", "valid", "wrong-key", "server-spi", "valid-over-trailing-bytes"} {
								if ao != "absent" && l4 != "udp" {
									continue
								}
								if ao == "valid-over-trailing-bytes" && port != kit.SrvPort {
									continue // only meaningful for requests the listener serves itself
								}
								i := in{Auth: srvAuth, V6: v6, Path: p.String(), L4: l4, DstPort: port, Sock: sock, AuthOpt: ao}
								try(i)
								if l4 == "udp" || l4 == "scmp-echo" {
									// the same packet with a hop-by-hop extension ahead of everything else
									i.HBH = true
									try(i)
								}
								if sampled < 2 && ao == "valid" {
									r.Sample(i)
									sampled++
								}
							}
						}
					}
				}
			}
		}
		// sequences through one listener (one DRKey cache): requests addressed to
		// different local host addresses must each be judged under their own key
		if srvAuth {
			hosts := []netip.Addr{kit.SrvHost, netip.MustParseAddr("10.0.0.9"), netip.MustParseAddr("fd00::1")}
			mkReq := func(dst netip.Addr, keyOf netip.Addr) []byte {
				ch := kit.CliHost
				if dst.Is6() {
					ch = netip.MustParseAddr("fd00::2")
				}
				key := sw.Daemon.HostHostKey(kit.SrvIA, kit.CliIA, keyOf.String(), ch.String())
				pk := &kit.Pkt{SrcIA: kit.CliIA, DstIA: kit.SrvIA, SrcHost: ch, DstHost: dst, Path: kit.PathSpec{Kind: "empty"}, L4: "udp", SrcPort: 40123, DstPort: uint16(kit.SrvPort),
					Payload: kit.ClientHeader(w.Clock.Peek()), AuthKey: key, AuthSPI: scion.PacketAuthSPIClient}
				return pk.Bytes()
			}
			verified := func(o *vnet.Datagram, dst netip.Addr) bool {
				pr, err := kit.Parse(o.Data)
				if err != nil || pr.E2E == nil || pr.UDP == nil {
					return false
				}
				ao, e := pr.E2E.FindOption(slayers.OptTypeAuthenticator)
				if e != nil || len(ao.OptData) != scion.PacketAuthOptDataLen {
					return false
				}
				ch := kit.CliHost
				if dst.Is6() {
					ch = netip.MustParseAddr("fd00::2")
				}
				key := sw.Daemon.HostHostKey(kit.SrvIA, kit.CliIA, dst.String(), ch.String())
				mac := make([]byte, 16)
				_, e2 := spao.ComputeAuthCMAC(spao.MACInput{Key: key, Header: slayers.PacketAuthOption{EndToEndOption: ao}, ScionLayer: &pr.SCION, PldType: slayers.L4UDP, Pld: append(append([]byte{}, pr.UDP.Contents...), pr.UDP.Payload...)}, make([]byte, spao.MACBufferSize), mac)
				return e2 == nil && bytes.Equal(mac, scion.PacketAuthOptMAC(ao))
			}
			for _, a := range hosts {
				for _, b := range hosts {
					if a == b {
						continue
					}
					sw.Svc = sw.Start(kit.SrvPort) // fresh listener, fresh key cache
					i := in{Auth: true, Path: "seq " + a.String() + " then " + b.String(), L4: "udp", DstPort: kit.SrvPort, Sock: "service", AuthOpt: "valid"}
					r.Evals += 3
					r.Distinct += 3
					for step, dst := range []netip.Addr{a, b} {
						out := sw.Send(sw.Svc, kit.Router, mkReq(dst, dst))
						if len(w.Panics) > 0 {
							p := w.Panics[0]
							w.Panics = nil
							f := mc.PanicFailure(p.Value, p.Stack)
							r.Fail(scen, f.Signature, f.Message, i)
							break
						}
						if len(out) != 1 {
							r.Fail(scen, "verified-request-not-served", fmt.Sprintf("%s: step %d (request addressed to %v, MAC under its own key) got %d replies", i.Path, step, dst, len(out)), i)
						} else if !verified(out[0], dst) {
							r.Fail(scen, "reply-authenticator-does-not-verify", fmt.Sprintf("%s: step %d: the reply's authenticator does not verify under the (%v, client) key", i.Path, step, dst), i)
						}
					}
					// addressed to b, MAC under a's key
					// (with the project's mock keys every pair of hosts shares one key, so the
					// MAC does verify and there is nothing to reject)
					if out := sw.Send(sw.Svc, kit.Router, mkReq(b, a)); len(out) != 0 && !scion.UseMockKeys() {
						r.Fail(scen, "unverified-authenticator-served", fmt.Sprintf("%s: a request addressed to %v with a MAC under the key of %v was served", i.Path, b, a), i)
					}
					w.Panics = nil
				}
			}
		}
		// every single bit of a verified request
		for _, p := range []kit.PathSpec{{Kind: "empty"}, {Kind: "scion", Segs: []int{2, 2}, CurrINF: 0, CurrHF: 0}} {
			for _, v6 := range []bool{false, true} {
				for bit := 0; bit < 8*400; bit++ {
					try(in{Auth: srvAuth, V6: v6, Path: p.String(), L4: "udp", DstPort: kit.SrvPort, Sock: "service", AuthOpt: "valid", Mut: bit + 1})
				}
			}
		}
	})
}

func rawOf(p kit.PathSpec) []byte {
	if p.Kind == "empty" {
		return []byte{}
	}
	return p.Raw()
}

func netipOf(raw []byte) string {
	a, ok := netip.AddrFromSlice(raw)
	if !ok {
		return fmt.Sprintf("%x", raw)
	}
	return a.String()
}

func TestCheck(t *testing.T) {
	mc.Main(t, "C13", func(r *mc.Run) {
		for _, auth := range []bool{true, false} {
			var only in
			if r.Replaying() {
				if r.ReplayInput(fmt.Sprintf("auth=%v", auth), &only) {
					run(r, auth, &only)
				}
				continue
			}
			if r.Mine() {
				run(r, auth, nil)
			}
		}
		if !r.Replaying() && r.Mine() {
			clientSide(r)
		}
		if r.Replaying() {
			for _, v := range r.Rep.Violations {
				fmt.Printf("REPLAY-VERDICT: FAIL signature=%q\n%s\n", v.Signature, v.Message)
				t.Fail()
			}
			if len(r.Rep.Violations) == 0 {
				fmt.Println("REPLAY-VERDICT: PASS")
			}
			return
		}
		r.Extra["rule"] = "runSCIONServer on the service port and the end-host port, DRKey fetcher present/absent: product of {IPv4, IPv6 hosts} x {empty, one-hop, SCION paths with 1-3 segments of 1-3 hops at the first/last/cross-over (thorough: every) position} x {UDP/NTP, SCMP echo, traceroute, error, unknown, other L4} x L4 destination port {service, 30041, other} x receiving socket x authenticator {absent, valid, wrong key, server SPI, valid over trailing bytes only (a captured request re-sent behind another UDP header and NTP request)} x hop-by-hop extension {absent, present}; plus every single-bit flip of a verified request (2 paths x 2 families) and all ordered pairs of requests addressed to different local host addresses through one listener (one DRKey cache); response half: an authenticating SCIONClient against the authenticating listener, its genuine response delivered as is, with every single bit flipped, and behind another UDP header and NTP response"
	})
}
