package c07

import (
	"fmt"
	"reflect"
	"time"

	"example.com/scion-time/core/server"
	"example.com/scion-time/net/ntp"

	"verif.local/harness/tsskit"
	"verif.local/mc"
	"verif.local/sched"
	"verif.local/shim/vsync"
	"verif.local/world"
)

// An op is one listener operation with all inputs fixed (including the clock
// reading it will observe), so that an execution's outcome depends on the
// schedule only.
type op struct {
	H      bool
	Client string
	Rx     time.Duration // receive time relative to T0
	Clock  time.Duration // clock reading relative to T0 (H only)
	Origin time.Duration // >0: interleaved request naming the exchange received at T0+Origin
	NoTxTS bool          // U: no kernel transmit timestamp could be read
}

type result struct {
	Resp ntp.Packet
	Rx   time.Time
	Txt  time.Time
}

type outcome struct {
	Results map[string]result // "thread/opindex"
	Snap    server.VerifTSSSnapshot
}

type thr struct {
	name string
	ops  []op
}

type prog struct {
	name    string
	prefix  []op // executed sequentially before the threads start
	threads []thr
}

var curClock time.Time

func apply(o op, last *result) result {
	var res result
	if o.H {
		req := ntp.Packet{}
		req.SetVersion(4)
		req.SetMode(ntp.ModeClient)
		req.TransmitTime = ntp.Time64FromTime(tsskit.T0.Add(o.Rx - time.Millisecond))
		if o.Origin != 0 {
			req.OriginTime = ntp.Time64FromTime(tsskit.T0.Add(o.Origin))
			req.ReceiveTime = ntp.Time64{Seconds: 5, Fraction: 5}
		}
		rx := tsskit.T0.Add(o.Rx)
		var txt time.Time
		server.VerifHandleRequest(o.Client, &req, &rx, &txt, &res.Resp)
		res.Rx, res.Txt = rx, txt
		return res
	}
	txt := last.Txt
	if !o.NoTxTS {
		txt = txt.Add(time.Microsecond)
	}
	server.VerifUpdateTXTimestamp(o.Client, last.Rx, &txt)
	res.Rx, res.Txt = last.Rx, txt
	return res
}

// merges enumerates all interleavings of the threads' op sequences.
func merges(ths []thr, f func(order [][2]int)) {
	pos := make([]int, len(ths))
	var cur [][2]int
	var rec func()
	rec = func() {
		done := true
		for i := range ths {
			if pos[i] < len(ths[i].ops) {
				done = false
				cur = append(cur, [2]int{i, pos[i]})
				pos[i]++
				rec()
				pos[i]--
				cur = cur[:len(cur)-1]
			}
		}
		if done {
			f(cur)
		}
	}
	rec()
}

func sequential(p prog, order [][2]int) outcome {
	server.VerifResetTSS()
	clk := &world.Clock{}
	clk.Fixed = func() time.Time { return curClock }
	world.UseClock(clk)
	out := outcome{Results: map[string]result{}}
	var last result
	for _, o := range p.prefix {
		curClock = tsskit.T0.Add(o.Clock)
		last = apply(o, &last)
	}
	lasts := make([]result, len(p.threads))
	for _, k := range order {
		o := p.threads[k[0]].ops[k[1]]
		curClock = tsskit.T0.Add(o.Clock)
		res := apply(o, &lasts[k[0]])
		lasts[k[0]] = res
		out.Results[fmt.Sprintf("%d/%d", k[0], k[1])] = res
	}
	out.Snap = server.VerifSnapshotTSS()
	return out
}

func sameOutcome(a, b outcome) bool {
	if !reflect.DeepEqual(a.Results, b.Results) {
		return false
	}
	// the heap array order may legitimately differ between orders that commute;
	// compare the map contents and the queue as a set with keys
	if len(a.Snap.Items) != len(b.Snap.Items) {
		return false
	}
	for i := range a.Snap.Items {
		x, y := a.Snap.Items[i], b.Snap.Items[i]
		if x.Key != y.Key || x.Qval != y.Qval || len(x.Pairs) != len(y.Pairs) {
			return false
		}
		seen := map[server.VerifTSSPair]int{}
		for _, p := range x.Pairs {
			seen[p]++
		}
		for _, p := range y.Pairs {
			seen[p]--
		}
		for _, n := range seen {
			if n != 0 {
				return false
			}
		}
	}
	return true
}

func schedProgram(r *mc.Run, p prog) func(x *mc.X) {
	// sequential reference outcomes are schedule independent: compute once
	var refs []outcome
	merges(p.threads, func(order [][2]int) {
		refs = append(refs, sequential(p, order))
	})
	// if the store tried a lock in those runs, preemptions inside critical
	// sections become observable: make Unlock a scheduling point as well
	if vsync.Adapt() {
		r.Extra["unlock_points"] = true
	}
	return func(x *mc.X) {
		world.Run(r.T, x, func(w *world.World) {
			server.VerifResetTSS()
			var pre result
			w.Clock.Fixed = func() time.Time { return curClock }
			for _, o := range p.prefix {
				curClock = tsskit.T0.Add(o.Clock)
				pre = apply(o, &pre)
			}
			s := sched.New(x)
			defer s.Close()
			clockOf := make([]time.Time, len(p.threads))
			w.Clock.Fixed = func() time.Time {
				if t := sched.Current(); t != nil {
					return clockOf[t.ID()]
				}
				return curClock
			}
			got := outcome{Results: map[string]result{}}
			res := make([][]result, len(p.threads))
			for ti, th := range p.threads {
				res[ti] = make([]result, len(th.ops))
				s.Go(th.name, func() {
					var last result
					for oi, o := range th.ops {
						clockOf[ti] = tsskit.T0.Add(o.Clock)
						last = apply(o, &last)
						res[ti][oi] = last
					}
				})
			}
			ok := s.Run()
			x.Transitions += int64(s.Steps)
			for _, t := range s.Threads() {
				if t.Panic != nil {
					f := mc.PanicFailure(t.Panic, t.Stack)
					x.Failf(f.Signature, "thread %s: %s", t.Name, f.Message)
				}
			}
			if !ok {
				x.Failf("deadlock", "no thread enabled but not all finished")
			}
			for ti := range res {
				for oi := range res[ti] {
					got.Results[fmt.Sprintf("%d/%d", ti, oi)] = res[ti][oi]
				}
			}
			got.Snap = server.VerifSnapshotTSS()
			sys := &tsskit.Sys{InOrder: map[string]bool{}, Cap: server.VerifTSSCap}
			if f := sys.Invariants(got.Snap); f != nil {
				x.Failf(f.Sig, "%s", f.Msg)
			}
			match := -1
			for i, ref := range refs {
				if sameOutcome(got, ref) {
					match = i
					break
				}
			}
			if match < 0 {
				x.Failf("not-equivalent-to-any-sequential-order", "program %s: replies %+v and store %+v match none of the %d sequential orders", p.name, got.Results, got.Snap.Items, len(refs))
			}
			x.Observe(match)
		})
	}
}

func schedules(r *mc.Run) {
	hu := func(c string, rx, clk time.Duration) []op {
		return []op{{H: true, Client: c, Rx: rx, Clock: clk}, {Client: c}}
	}
	s, ms := time.Second, time.Millisecond
	progs := []prog{
		{name: "2x[H;U] same client same rx", threads: []thr{{"L1", hu("A", s, s+ms)}, {"L2", hu("A", s, s+ms)}}},
		{name: "2x[H;U] same client, clock before rx", threads: []thr{{"L1", hu("A", s, s-1)}, {"L2", hu("A", s+1, s)}}},
		{name: "H;U || interleaved H;U(no ts)", prefix: hu("A", s, s+ms),
			threads: []thr{{"L1", hu("A", 2*s, 2*s+ms)}, {"L2", []op{{H: true, Client: "A", Rx: 2 * s, Clock: 2*s + 2*ms, Origin: s}, {Client: "A", NoTxTS: true}}}}},
		{name: "2x[H;U;H;U] two clients crossing", threads: []thr{
			{"L1", append(hu("A", s, s+ms), hu("B", 3*s, 3*s+ms)...)},
			{"L2", append(hu("B", 2*s, 2*s+ms), hu("A", 2*s, 2*s+ms)...)}}},
		{name: "3x[H;U] A A B", threads: []thr{{"L1", hu("A", s, s+ms)}, {"L2", hu("A", s, s+2*ms)}, {"L3", hu("B", s, s+ms)}}},
	}
	if server.VerifTSSCap <= 8 {
		// full cap-3 store: three listeners race for the slot of the oldest client
		fillp := append(append(hu("P", s, s+ms), hu("Q", 2*s, 2*s+ms)...), hu("R", 3*s, 3*s+ms)...)
		progs = []prog{
			{name: "cap3: 3 newcomers vs full store", prefix: fillp, threads: []thr{{"L1", hu("X", 4*s, 4*s+ms)}, {"L2", hu("Y", 2*s+ms, 4*s+ms)}, {"L3", hu("Z", s/2, 4*s+ms)}}},
			{name: "cap3: newcomer vs update of the oldest", prefix: append(fillp[:5:5], op{H: true, Client: "P", Rx: 5 * s, Clock: 5*s + ms}), threads: []thr{{"L1", []op{{Client: "P"}}}, {"L2", hu("X", 6*s, 6*s+ms)}, {"L3", hu("P", 7*s, 7*s+ms)}}},
		}
	}
	for _, p := range progs {
		bound := -1
		if len(p.threads) > 2 && !r.Thorough() {
			bound = 3
		}
		r.Explore(mc.Config{Name: "sched/" + p.name, Bound: bound}, schedProgram(r, p))
	}
	r.Extra["rule_schedules"] = "lock-level schedules (scheduling points: clock read, mutex acquisition, thread start) of 2 listener threads (all interleavings) and 3 listener threads (<=3 preemptions quick, all thorough) running [handleRequest; updateTXTimestamp] on colliding clients / timestamps / a full cap-3 store; each outcome (all replies + final store) must equal that of some sequential merge"
}
