// C07: the server's per-client state stays bounded, consistent and race-free
// (DESIGN.md C07). Three layers: (1) structural invariants and the eviction
// rule on every transition of exhaustive small-capacity histories (tssCap
// re-valued to 3 through the overlay) and of a run against the shipped
// capacity of 2^20; (2) lock-level schedules of concurrent listeners
// (sched variant); (3) a free-running pass under the race detector.
package c07

import (
	"flag"
	"fmt"
	"sync"
	"testing"
	"time"

	"example.com/scion-time/core/server"
	"example.com/scion-time/net/ntp"

	"verif.local/harness/tsskit"
	"verif.local/mc"
)

var mode = flag.String("vmode", "seq", "seq|race|sched")

func TestCheck(t *testing.T) {
	mc.Main(t, "C07", func(r *mc.Run) {
		switch {
		case *mode == "race":
			racePass(r)
		case *mode == "sched":
			schedules(r)
		case server.VerifTSSCap <= 8:
			smallCap(r)
		default:
			realCap(r)
		}
	})
}

// smallCap: exhaustive histories over five client identities against a
// three-client store.
func smallCap(r *mc.Run) {
	cl := []string{"A", "B", "C", "D", "E"}
	r.Extra["small_cap"] = server.VerifTSSCap
	// free client / receive-time choices (+1s, -1s, +1ns), everything else within 2 deviations
	r.Explore(mc.Config{Name: "cap3/free", Bound: mc.Pick(r, 2, 3), Prune: true},
		tsskit.Program(tsskit.Params{Clients: cl, Steps: mc.Pick(r, 6, 8), FreeClientRx: true, RxKinds: 3, Prune: true}, nil))
	// requests that waited in the socket buffer: received just before the least
	// recently active client's last activity, handled after it
	r.Explore(mc.Config{Name: "cap3/late-handled", Bound: mc.Pick(r, 1, 2), Prune: true},
		tsskit.Program(tsskit.Params{Clients: cl, Steps: mc.Pick(r, 6, 7), FreeClientRx: true, RxSet: []int{0, 5, 2}, Prune: true}, nil))
	// the same from stores in which client A's eight-slot record has already wrapped
	for _, pre := range []int{8, 9, 11} {
		r.Explore(mc.Config{Name: fmt.Sprintf("cap3/prefill%d", pre), Bound: mc.Pick(r, 3, 4)},
			tsskit.Program(tsskit.Params{Clients: cl[:3], Steps: mc.Pick(r, 5, 7), Prefill: pre}, nil))
	}
	// full alphabet, deviation bounded, from a store already holding cap clients
	r.Explore(mc.Config{Name: "cap3/dev", Bound: mc.Pick(r, 4, 5)},
		tsskit.Program(tsskit.Params{Clients: cl, Steps: mc.Pick(r, 7, 9)}, nil))
	if r.Mine() || r.ShardN == 1 {
		eraCrossing(r)
	}
	// the free client / order exploration once more with the time origin three
	// seconds before the NTP era rollover of 2036, so that histories cross it
	saved := tsskit.T0
	tsskit.T0 = time.Date(2036, 2, 7, 6, 28, 13, 0, time.UTC)
	r.Explore(mc.Config{Name: "cap3/era-rollover", Bound: mc.Pick(r, 1, 2), Prune: true},
		tsskit.Program(tsskit.Params{Clients: cl, Steps: mc.Pick(r, 5, 7), FreeClientRx: true, RxKinds: 3, Prune: true}, nil))
	tsskit.T0 = saved
	r.Extra["rule"] = "cap-3 store, five client identities: all histories of 6 (8) steps with free client and receive-time order choices (+1s, -1s, +1ns; and +1s, +1ns, 1ns before the least recently active client's last activity with the handler running after it) and <=2 (3) other deviations, canonical-state pruned; the C06 alphabet within 4 (5) deviations, also from stores where one client's eight-slot record has wrapped (8, 9, 11 prior exchanges); the same exploration with the time origin 3 s before the 2036 era rollover; every transition judged by the eviction rule and the structural invariants"
}

// realCap: the shipped constant. Fill the store with 2^20 clients in three
// arrival orders, then push further identities through it.
func realCap(r *mc.Run) {
	if r.Replaying() {
		return
	}
	cap := server.VerifTSSCap
	r.Extra["real_cap"] = cap
	extra := mc.Pick(r, 6, 64)
	orders := []string{"increasing", "decreasing", "sawtooth"}
	for oi, order := range orders {
		if !r.Mine() {
			continue
		}
		s := tsskit.NewSys()
		rxOf := func(i int) time.Time {
			switch order {
			case "increasing":
				return tsskit.T0.Add(time.Duration(i) * time.Millisecond)
			case "decreasing":
				return tsskit.T0.Add(time.Duration(cap+200-i) * time.Millisecond)
			default:
				return tsskit.T0.Add(time.Duration((i%1024)*2048+i/1024) * time.Millisecond)
			}
		}
		req := ntp.Packet{}
		req.SetVersion(4)
		req.SetMode(ntp.ModeClient)
		for i := 0; i < cap; i++ {
			rx := rxOf(i)
			s.FastH(fmt.Sprintf("c%07d", i), req, rx)
			if i%65536 == 0 {
				r.Journal(fmt.Sprintf("realcap %s fill %d", order, i))
			}
		}
		r.Evals += int64(cap)
		sn := server.VerifSnapshotTSS()
		if len(sn.Items) != cap {
			r.Fail("realcap/"+order, "fill-lost-clients", fmt.Sprintf("%d distinct clients admitted into an empty store of capacity %d, %d on record", cap, cap, len(sn.Items)), order)
		}
		if f := s.Invariants(sn); f != nil {
			r.Fail("realcap/"+order, f.Sig, f.Msg, order)
		}
		// further identities: alternately newer and older than everything on record
		for k := 0; k < extra; k++ {
			r.Journal(fmt.Sprintf("realcap %s extra %d", order, k))
			rx := tsskit.T0.Add(time.Duration(2*cap+k) * time.Millisecond)
			if k%3 == 2 {
				rx = tsskit.T0.Add(-time.Duration(k+1) * time.Millisecond)
			}
			_, _, f := s.H(tsskit.Req{Client: fmt.Sprintf("x%04d", k), Pkt: req, Rx: rx, Now: rx.Add(time.Millisecond)})
			r.Evals++
			r.Distinct++
			if f != nil {
				r.Fail("realcap/"+order, f.Sig, f.Msg, order)
			}
		}
		r.Sample(map[string]any{"order": order, "filled": cap, "extra_identities": extra})
		_ = oi
	}
	server.VerifResetTSS()
	r.Extra["rule"] = "shipped capacity 2^20: fill with 2^20 distinct identities in increasing / decreasing / sawtooth receive-time order, structural invariants on the full store, then 6 (64) further identities (newer and older than everything on record), each judged by the eviction rule and the invariants"
}

// racePass: free-running goroutines under the race detector (the cooperative
// scheduler's hand-offs would hide races, so this pass uses neither the
// explorer nor the vsync shim).
func racePass(r *mc.Run) {
	if r.Replaying() {
		return
	}
	s := tsskit.NewSys()
	_ = s
	var wg sync.WaitGroup
	ops := mc.Pick(r, 4000, 40000)
	for g := 0; g < 16; g++ {
		wg.Add(1)
		go func() {
			defer wg.Done()
			req := ntp.Packet{}
			req.SetVersion(4)
			req.SetMode(ntp.ModeClient)
			for i := 0; i < ops; i++ {
				c := fmt.Sprintf("c%d", (g+i)%4)
				rx := tsskit.T0.Add(time.Duration(i) * time.Microsecond)
				var txt time.Time
				var resp ntp.Packet
				q := req
				server.VerifHandleRequest(c, &q, &rx, &txt, &resp)
				if i%3 != 0 {
					txt = txt.Add(time.Microsecond)
				}
				server.VerifUpdateTXTimestamp(c, rx, &txt)
			}
		}()
	}
	wg.Wait()
	r.Evals += int64(16 * ops * 2)
	r.Distinct += int64(16 * ops)
	if f := s.Invariants(server.VerifSnapshotTSS()); f != nil {
		r.Fail("race", f.Sig, f.Msg, nil)
	}
	r.Sample(map[string]any{"goroutines": 16, "ops_each": ops, "clients": 4})
}

// eraCrossing: a full cap-3 store across the NTP era rollover of 2036. The
// store orders clients by raw 32-bit seconds; the oracle here uses real time.
func eraCrossing(r *mc.Run) {
	if r.Replaying() {
		return
	}
	rollover := time.Date(2036, 2, 7, 6, 28, 16, 0, time.UTC)
	s := tsskit.NewSys()
	s.MaxRx = rollover.Add(-10 * time.Second)
	req := ntp.Packet{}
	req.SetVersion(4)
	req.SetMode(ntp.ModeClient)
	last := map[string]time.Time{}
	h := func(c string, at time.Time) (served bool) {
		pre := server.VerifSnapshotTSS()
		s.FastH(c, req, at)
		post := server.VerifSnapshotTSS()
		r.Evals++
		r.Distinct++
		have := func(sn server.VerifTSSSnapshot, k string) bool {
			for _, it := range sn.Items {
				if it.Key == k {
					return true
				}
			}
			return false
		}
		if len(pre.Items) == s.Cap && !have(pre, c) {
			// full store, newcomer: by real time, the least recently active client
			var oldest string
			for k, t := range last {
				if have(pre, k) && (oldest == "" || t.Before(last[oldest])) {
					oldest = k
				}
			}
			for k := range last {
				if have(pre, k) && !have(post, k) && k != oldest {
					r.Fail("era", "era-crossing:evicted-not-least-recently-active", fmt.Sprintf("request of %s at %v (after the 2036 era rollover) evicted %s (last active %v) although %s was last active %v", c, at.UTC(), k, last[k].UTC(), oldest, last[oldest].UTC()), "era")
				}
			}
			if !have(post, c) && !last[oldest].After(at) {
				r.Fail("era", "era-crossing:recent-newcomer-served-statelessly", fmt.Sprintf("full store, request of %s at %v is more recent than every client on record (oldest %s at %v) but was not admitted", c, at.UTC(), oldest, last[oldest].UTC()), "era")
			}
		}
		if have(post, c) {
			last[c] = at
		}
		return have(post, c)
	}
	h("P", rollover.Add(-3*time.Second))
	h("Q", rollover.Add(-2*time.Second))
	h("R", rollover.Add(1*time.Second)) // first client of era 1
	h("X", rollover.Add(2*time.Second))
	h("Y", rollover.Add(3*time.Second))
	h("Z", rollover.Add(4*time.Second))
	server.VerifResetTSS()
}
