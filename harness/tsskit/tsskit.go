// Package tsskit drives the server's request handler and transmit-timestamp
// update through the verif hooks and checks the step relations of C06 and the
// store invariants of C07 on every transition.
package tsskit

import (
	"fmt"
	"sort"
	"time"

	"example.com/scion-time/core/server"
	"example.com/scion-time/net/ntp"

	"verif.local/world"
)

// T0 is the time origin of all histories (inside NTP era 0).
var T0 = time.Date(2024, 5, 1, 12, 0, 0, 0, time.UTC)

// Exchange is one request handled by H whose transmit-timestamp update is outstanding.
type Exchange struct {
	Client string
	Rx     time.Time // receive time after uniqueness bumps (what the listener passes to U)
	Txt0   time.Time // software transmit time returned by H
	Seq    int
	// Ambiguous: another exchange of the same client with the same receive
	// timestamp was in flight at the same time (possible only with equal or
	// decreasing receive times after the earlier record was replaced). The
	// update identifies an exchange by (client, receive timestamp), so the
	// statement does not say which of the two a reported transmit time
	// belongs to; only structural checks apply to such updates.
	Ambiguous bool
}

// Sys is the system under test plus harness bookkeeping for one execution.
type Sys struct {
	Clock    *world.Clock
	now      time.Time
	Inflight []*Exchange
	nex      int
	MaxRx    time.Time            // largest receive time used so far
	InOrder  map[string]bool      // client's requests arrived with strictly increasing rx so far
	lastRx   map[string]time.Time // latest arrival per client
	// owner: which exchange created the pair currently on record under (client,
	// receive timestamp); a receive timestamp may be reused once its pair is gone
	owner map[string]*Exchange
	// issued: receive timestamps this harness has seen the server hand to each
	// client (a reference record of the history, independent of the store)
	issued map[string]map[ntp.Time64]bool
	Cap    int
	Steps int
}

// NewSys resets the store and installs a scripted clock.
func NewSys() *Sys {
	s := &Sys{InOrder: map[string]bool{}, lastRx: map[string]time.Time{}, owner: map[string]*Exchange{}, issued: map[string]map[ntp.Time64]bool{}, Cap: server.VerifTSSCap, MaxRx: T0}
	s.Clock = &world.Clock{}
	s.Clock.Fixed = func() time.Time { return s.now }
	world.UseClock(s.Clock)
	server.VerifResetTSS()
	return s
}

// FastH applies handleRequest without snapshots or oracle (bulk fills).
func (s *Sys) FastH(c string, req ntp.Packet, rx time.Time) {
	s.now = rx.Add(time.Millisecond)
	var txt time.Time
	var resp ntp.Packet
	server.VerifHandleRequest(c, &req, &rx, &txt, &resp)
	if last, ok := s.lastRx[c]; ok && !rx.After(last) {
		s.InOrder[c] = false
	} else if !ok {
		s.InOrder[c] = true
	}
	s.lastRx[c] = rx
	if rx.After(s.MaxRx) {
		s.MaxRx = rx
	}
	s.issue(c, resp.ReceiveTime)
}

func (s *Sys) issue(c string, rx ntp.Time64) {
	if s.issued[c] == nil {
		s.issued[c] = map[ntp.Time64]bool{}
	}
	s.issued[c][rx] = true
}

// Fail is an oracle failure.
type Fail struct{ Sig, Msg string }

func failf(sig, format string, a ...any) *Fail { return &Fail{sig, fmt.Sprintf(format, a...)} }

// Items of a snapshot are sorted by key: binary search.
func find(s server.VerifTSSSnapshot, c string) int {
	i := sort.Search(len(s.Items), func(i int) bool { return s.Items[i].Key >= c })
	if i < len(s.Items) && s.Items[i].Key == c {
		return i
	}
	return -1
}

func pairsOf(s server.VerifTSSSnapshot, c string) []server.VerifTSSPair {
	if i := find(s, c); i >= 0 {
		return s.Items[i].Pairs
	}
	return nil
}

func hasClient(s server.VerifTSSSnapshot, c string) bool { return find(s, c) >= 0 }

// Req describes one request.
type Req struct {
	Client string
	Pkt    ntp.Packet
	Rx     time.Time
	Now    time.Time
}

// H applies handleRequest and checks the C06 step relation against the
// pre-state. It returns the in-flight exchange.
func (s *Sys) H(q Req) (*Exchange, ntp.Packet, *Fail) {
	pre := server.VerifSnapshotTSS()
	s.now = q.Now
	rx := q.Rx
	var txt time.Time
	var resp ntp.Packet
	req := q.Pkt
	server.VerifHandleRequest(q.Client, &req, &rx, &txt, &resp)
	s.Steps++
	post := server.VerifSnapshotTSS()
	if last, ok := s.lastRx[q.Client]; ok {
		if !q.Rx.After(last) {
			s.InOrder[q.Client] = false
		}
	} else {
		s.InOrder[q.Client] = true
	}
	s.lastRx[q.Client] = q.Rx
	if rx.After(s.MaxRx) {
		s.MaxRx = rx
	}
	ex := &Exchange{Client: q.Client, Rx: rx, Txt0: txt, Seq: s.nex}
	s.nex++
	for _, o := range s.Inflight {
		if o.Client == ex.Client && ntp.Time64FromTime(o.Rx) == ntp.Time64FromTime(ex.Rx) {
			o.Ambiguous, ex.Ambiguous = true, true
		}
	}
	s.syncOwners(post)
	for _, p := range pairsOf(post, q.Client) {
		if p.Rx == ntp.Time64FromTime(rx) {
			s.owner[ownerKey(q.Client, p.Rx)] = ex
		}
	}
	// --- reply header
	if resp.Version() != 4 || resp.Mode() != ntp.ModeServer || resp.Stratum != 1 || resp.LeapIndicator() != 0 {
		return ex, resp, failf("reply-header", "reply LI=%d VN=%d mode=%d stratum=%d", resp.LeapIndicator(), resp.Version(), resp.Mode(), resp.Stratum)
	}
	// --- receive timestamp
	if rx.Before(q.Rx) || rx.Sub(q.Rx) > 16 {
		return ex, resp, failf("rx-moved", "receive time %v became %v", q.Rx, rx)
	}
	if resp.ReceiveTime != ntp.Time64FromTime(rx) {
		return ex, resp, failf("reply-rx-not-receive-time", "ReceiveTime %v, request received at %v (%v)", resp.ReceiveTime, rx, ntp.Time64FromTime(rx))
	}
	prePairs := pairsOf(pre, q.Client)
	for _, p := range prePairs {
		if p.Rx == resp.ReceiveTime {
			return ex, resp, failf("rx-not-unique", "reply ReceiveTime %v equals a receive timestamp kept for %s", resp.ReceiveTime, q.Client)
		}
	}
	// --- basic vs interleaved
	var onRecord *server.VerifTSSPair
	for i := range prePairs {
		if prePairs[i].Rx == q.Pkt.OriginTime {
			onRecord = &prePairs[i]
		}
	}
	wantInterleaved := q.Pkt.ReceiveTime != q.Pkt.TransmitTime && onRecord != nil
	var isInterleaved bool
	switch {
	case q.Pkt.ReceiveTime == q.Pkt.TransmitTime:
		if resp.OriginTime != q.Pkt.TransmitTime {
			return ex, resp, failf("origin-mismatch", "origin %v, request rx=tx=%v", resp.OriginTime, q.Pkt.TransmitTime)
		}
	case resp.OriginTime == q.Pkt.ReceiveTime:
		isInterleaved = true
	case resp.OriginTime == q.Pkt.TransmitTime:
	default:
		return ex, resp, failf("origin-mismatch", "origin %v is neither the request's transmit %v nor receive %v timestamp", resp.OriginTime, q.Pkt.TransmitTime, q.Pkt.ReceiveTime)
	}
	// history-based reference, independent of the store: an interleaved reply
	// presupposes an earlier exchange of this very client with that receive timestamp
	if isInterleaved && !s.issued[q.Client][q.Pkt.OriginTime] {
		return ex, resp, failf("interleaved-on-foreign-exchange", "interleaved reply to %s for origin %v, which no earlier reply to that client carried as receive timestamp (transmit served: %v)", q.Client, q.Pkt.OriginTime, resp.TransmitTime)
	}
	s.issue(q.Client, resp.ReceiveTime)
	if isInterleaved && !wantInterleaved {
		return ex, resp, failf("interleaved-without-record", "interleaved reply to %s but no exchange with rx=%v on record for that client (rx==tx in request: %v)", q.Client, q.Pkt.OriginTime, q.Pkt.ReceiveTime == q.Pkt.TransmitTime)
	}
	if !isInterleaved && wantInterleaved {
		return ex, resp, failf("interleaved-request-on-record-served-basic", "request of %s names rx=%v which is on record, reply is basic", q.Client, q.Pkt.OriginTime)
	}
	if isInterleaved {
		if resp.TransmitTime != onRecord.Tx {
			return ex, resp, failf("interleaved-wrong-transmit", "interleaved reply transmit %v, recorded transmit of the named exchange is %v", resp.TransmitTime, onRecord.Tx)
		}
		if !onRecord.Tx.After(onRecord.Rx) {
			return ex, resp, failf("interleaved-transmit-not-after-receive", "served recorded transmit %v is not later than its receive %v", onRecord.Tx, onRecord.Rx)
		}
	} else {
		if resp.TransmitTime != ntp.Time64FromTime(txt) {
			return ex, resp, failf("basic-transmit-not-software-time", "basic reply transmit %v, software transmit time %v", resp.TransmitTime, ntp.Time64FromTime(txt))
		}
		if q.Now.After(q.Rx) && !resp.TransmitTime.After(resp.ReceiveTime) {
			return ex, resp, failf("basic-transmit-not-after-receive", "clock %v later than receive %v but transmit %v !> receive %v", q.Now, q.Rx, resp.TransmitTime, resp.ReceiveTime)
		}
	}
	// --- the exchange is on record afterwards (unless served statelessly)
	if hasClient(post, q.Client) {
		found := false
		for _, p := range pairsOf(post, q.Client) {
			if p.Rx == resp.ReceiveTime {
				found = true
				if p.Tx != ntp.Time64FromTime(txt) {
					return ex, resp, failf("recorded-transmit-wrong", "recorded tx %v, software transmit %v", p.Tx, ntp.Time64FromTime(txt))
				}
			}
		}
		if !found {
			return ex, resp, failf("exchange-not-recorded", "exchange rx=%v of %s not on record after handling", resp.ReceiveTime, q.Client)
		}
		// ... and the record holds nothing but what it held before and this exchange
		for _, p := range pairsOf(post, q.Client) {
			if p.Rx == resp.ReceiveTime {
				continue
			}
			held := false
			for _, o := range prePairs {
				if o == p {
					held = true
				}
			}
			if !held {
				return ex, resp, failf("record-holds-foreign-exchange", "after handling, %s has (rx=%v, tx=%v) on record: neither held before nor this exchange (client on record before: %v)", q.Client, p.Rx, p.Tx, hasClient(pre, q.Client))
			}
		}
	} else if len(pre.Items) < s.Cap {
		return ex, resp, failf("client-not-recorded", "store has room (%d/%d) but %s has no record", len(pre.Items), s.Cap, q.Client)
	}
	// --- other clients untouched (eviction is judged by C07's capacity oracle)
	for _, it := range pre.Items {
		if it.Key == q.Client {
			continue
		}
		if hasClient(post, it.Key) && !equalPairs(pairsOf(post, it.Key), it.Pairs) {
			return ex, resp, failf("other-client-modified", "handling %s changed the record of %s", q.Client, it.Key)
		}
	}
	if f := Eviction(pre, post, q.Client, resp.ReceiveTime, s.Cap); f != nil {
		return ex, resp, f
	}
	if f := s.Invariants(post); f != nil {
		return ex, resp, f
	}
	return ex, resp, nil
}

func equalPairs(a, b []server.VerifTSSPair) bool {
	if len(a) != len(b) {
		return false
	}
	for i := range a {
		if a[i] != b[i] {
			return false
		}
	}
	return true
}

// U applies updateTXTimestamp for ex with the reported transmit time (equal
// to ex.Txt0 means: no kernel timestamp could be read).
func (s *Sys) U(ex *Exchange, reported time.Time) *Fail {
	pre := server.VerifSnapshotTSS()
	txt := reported
	server.VerifUpdateTXTimestamp(ex.Client, ex.Rx, &txt)
	s.Steps++
	post := server.VerifSnapshotTSS()
	rx64 := ntp.Time64FromTime(ex.Rx)
	var stored *server.VerifTSSPair
	prePairs := pairsOf(pre, ex.Client)
	for i := range prePairs {
		if prePairs[i].Rx == rx64 {
			stored = &prePairs[i]
		}
	}
	postPairs := pairsOf(post, ex.Client)
	var after *server.VerifTSSPair
	for i := range postPairs {
		if postPairs[i].Rx == rx64 {
			after = &postPairs[i]
		}
	}
	none := reported.Equal(ex.Txt0)
	own := s.owner[ownerKey(ex.Client, rx64)] == ex
	defer s.syncOwners(post)
	switch {
	case stored != nil && !own:
		// the pair on record under this receive timestamp belongs to a later exchange
		// of the client (this exchange's own pair was replaced meanwhile): an update
		// for this exchange must leave it alone
		if !equalPairs(prePairs, postPairs) {
			return failf("update-applied-to-other-exchange", "update for exchange #%d of %s (rx=%v, reported %v) changed the record of a later exchange with the same receive timestamp: %v -> %v", ex.Seq, ex.Client, rx64, ntp.Time64FromTime(reported), *stored, postPairs)
		}
	case stored == nil:
		if !equalPairs(prePairs, postPairs) {
			return failf("update-touched-unrelated", "no exchange rx=%v on record for %s but its record changed", rx64, ex.Client)
		}
	case none:
		if after != nil {
			return failf("unread-transmit-kept", "no transmit timestamp could be read for rx=%v of %s but the exchange stays on record (tx %v -> %v)", rx64, ex.Client, stored.Tx, after.Tx)
		}
		if len(postPairs) != len(prePairs)-1 {
			return failf("update-touched-unrelated", "dropping one exchange changed %d -> %d pairs", len(prePairs), len(postPairs))
		}
	default:
		if after == nil && !reported.After(ex.Rx) {
			// a kernel transmit time not later than the receive time is outside
			// what the statement pins down (it may be adjusted or the exchange
			// dropped); nothing else changed, which is checked below
			if len(postPairs) != len(prePairs)-1 {
				return failf("update-touched-unrelated", "dropping one exchange changed %d -> %d pairs", len(prePairs), len(postPairs))
			}
			break
		}
		if after == nil {
			return failf("read-transmit-dropped", "kernel transmit time %v read for rx=%v of %s but the exchange was dropped", reported, rx64, ex.Client)
		}
		if !after.Tx.After(after.Rx) {
			return failf("recorded-transmit-not-after-receive", "recorded tx %v !> rx %v", after.Tx, after.Rx)
		}
		if reported.After(ex.Rx) && after.Tx != ntp.Time64FromTime(reported) {
			return failf("recorded-transmit-not-kernel-time", "recorded tx %v, kernel transmit time %v (%v)", after.Tx, reported, ntp.Time64FromTime(reported))
		}
		if len(postPairs) != len(prePairs) {
			return failf("update-touched-unrelated", "update changed %d -> %d pairs", len(prePairs), len(postPairs))
		}
	}
	// every other pair of this client and all other clients unchanged
	for _, p := range prePairs {
		if p.Rx == rx64 {
			continue
		}
		ok := false
		for _, q := range postPairs {
			ok = ok || p == q
		}
		if !ok {
			return failf("update-touched-unrelated", "pair %v of %s changed by an update for rx=%v", p, ex.Client, rx64)
		}
	}
	for _, it := range pre.Items {
		if it.Key != ex.Client && !equalPairs(pairsOf(post, it.Key), it.Pairs) {
			return failf("other-client-modified", "update for %s changed the record of %s", ex.Client, it.Key)
		}
	}
	return s.Invariants(post)
}

func ownerKey(c string, rx ntp.Time64) string {
	return fmt.Sprintf("%s/%d.%d", c, rx.Seconds, rx.Fraction)
}

// syncOwners forgets the owners of pairs that are no longer on record.
func (s *Sys) syncOwners(sn server.VerifTSSSnapshot) {
	live := map[string]bool{}
	for _, it := range sn.Items {
		for _, p := range it.Pairs {
			live[ownerKey(it.Key, p.Rx)] = true
		}
	}
	for k := range s.owner {
		if !live[k] {
			delete(s.owner, k)
		}
	}
}

// OldestActivity returns the queue value of the store's least recently active client.
func (s *Sys) OldestActivity() (ntp.Time64, bool) {
	snap := server.VerifSnapshotTSS()
	if len(snap.Queue) == 0 {
		return ntp.Time64{}, false
	}
	return snap.Items[find(snap, snap.Queue[0])].Qval, true
}

// Eviction judges the capacity behaviour of one H step (C07).
func Eviction(pre, post server.VerifTSSSnapshot, c string, rx64 ntp.Time64, cap int) *Fail {
	if len(post.Items) > cap {
		return failf("store-over-capacity", "%d clients, capacity %d", len(post.Items), cap)
	}
	if hasClient(pre, c) {
		if len(post.Items) != len(pre.Items) {
			return failf("client-count-changed", "known client %s: %d -> %d clients", c, len(pre.Items), len(post.Items))
		}
		return nil
	}
	if len(pre.Items) < cap {
		return nil
	}
	// full store, unknown client
	min := pre.Queue[0]
	minQ := pre.Items[find(pre, min)].Qval
	// the heap minimum must be the least recently active client
	for _, it := range pre.Items {
		if it.Qval.Before(minQ) {
			return failf("heap-minimum-not-oldest", "queue head %s (%v) but %s has %v", min, minQ, it.Key, it.Qval)
		}
	}
	var gone []string
	for _, it := range pre.Items {
		if !hasClient(post, it.Key) {
			gone = append(gone, it.Key)
		}
	}
	mayEvict := !minQ.After(rx64)
	switch {
	case len(gone) == 0:
		if hasClient(post, c) {
			return failf("store-over-capacity", "newcomer added to a full store without eviction")
		}
		if mayEvict {
			return failf("no-eviction-for-recent-request", "full store, oldest client %s (%v) not after request rx %v, but newcomer %s served statelessly", min, minQ, rx64, c)
		}
	case len(gone) == 1:
		if !mayEvict {
			return failf("evicted-for-older-request", "client %s (last active %v) evicted for a request received %v", gone[0], minQ, rx64)
		}
		goneQ := pre.Items[find(pre, gone[0])].Qval
		if goneQ != minQ {
			return failf("evicted-not-least-recent", "evicted %s (%v), least recently active is %s (%v)", gone[0], goneQ, min, minQ)
		}
		if !hasClient(post, c) {
			return failf("evicted-without-admission", "evicted %s but newcomer %s not recorded", gone[0], c)
		}
	default:
		return failf("evicted-several", "clients %v evicted by one request", gone)
	}
	return nil
}

// Invariants checks the C07 structural invariants on a snapshot.
func (s *Sys) Invariants(sn server.VerifTSSSnapshot) *Fail {
	if len(sn.Items) > s.Cap {
		return failf("store-over-capacity", "%d clients, capacity %d", len(sn.Items), s.Cap)
	}
	if len(sn.Queue) != len(sn.Items) {
		return failf("heap-map-disagree", "map has %d clients, queue %d", len(sn.Items), len(sn.Queue))
	}
	pos := map[string]int{}
	for i, k := range sn.Queue {
		if _, dup := pos[k]; dup {
			return failf("heap-map-disagree", "client %s twice in queue", k)
		}
		pos[k] = i
		if sn.Qidx[i] != i {
			return failf("heap-index-stale", "queue[%d]=%s has qidx %d", i, k, sn.Qidx[i])
		}
	}
	qval := map[string]ntp.Time64{}
	for _, it := range sn.Items {
		p, ok := pos[it.Key]
		if !ok {
			return failf("heap-map-disagree", "client %s in map but not in queue", it.Key)
		}
		if it.Qidx != p {
			return failf("heap-index-stale", "client %s qidx %d, queue position %d", it.Key, it.Qidx, p)
		}
		if len(it.Pairs) < 1 || len(it.Pairs) > server.VerifTSSItemCap {
			return failf("pairs-out-of-bounds", "client %s holds %d exchanges (qidx %d)", it.Key, len(it.Pairs), it.Qidx)
		}
		max := it.Pairs[0].Rx
		for i, p := range it.Pairs {
			if p.Rx.After(max) {
				max = p.Rx
			}
			for j := 0; j < i; j++ {
				if it.Pairs[j].Rx == p.Rx {
					return failf("rx-not-unique-in-store", "client %s holds rx %v twice", it.Key, p.Rx)
				}
			}
		}
		if it.Qval.Before(max) {
			return failf("queue-key-older-than-newest-exchange", "client %s ranked at %v but holds an exchange received %v", it.Key, it.Qval, max)
		}
		if s.InOrder[it.Key] && it.Qval != max {
			return failf("queue-key-not-newest-exchange", "client %s (requests in timestamp order) ranked at %v, newest exchange %v", it.Key, it.Qval, max)
		}
		qval[it.Key] = it.Qval
	}
	for i := 1; i < len(sn.Queue); i++ {
		p := (i - 1) / 2
		if qval[sn.Queue[i]].Before(qval[sn.Queue[p]]) {
			return failf("heap-order-violated", "queue[%d]=%s (%v) before its parent queue[%d]=%s (%v)", i, sn.Queue[i], qval[sn.Queue[i]], p, sn.Queue[p], qval[sn.Queue[p]])
		}
	}
	return nil
}

// Canon is a canonical form of store plus in-flight exchanges, with times
// rebased to the largest receive time seen (all comparisons in the code are
// order/equality comparisons inside one era, so rebased-equal states have
// equal futures under the relative alphabets used by the harnesses).
func (s *Sys) Canon() []byte {
	sn := server.VerifSnapshotTSS()
	base := ntp.Time64FromTime(s.MaxRx)
	rel := func(t ntp.Time64) int64 {
		return (int64(t.Seconds)-int64(base.Seconds))<<32 + int64(t.Fraction) - int64(base.Fraction)
	}
	b := fmt.Appendf(nil, "ns%d;", s.MaxRx.Nanosecond())
	for c, t := range s.lastRx {
		_ = c
		_ = t
	}
	keys := make([]string, 0, len(s.lastRx))
	for c := range s.lastRx {
		keys = append(keys, c)
	}
	sort.Strings(keys)
	for _, c := range keys {
		b = fmt.Appendf(b, "L%s%d;", c, rel(ntp.Time64FromTime(s.lastRx[c])))
	}
	for _, it := range sn.Items {
		ps := append([]server.VerifTSSPair{}, it.Pairs...)
		sort.Slice(ps, func(i, j int) bool { return ps[i].Rx.Before(ps[j].Rx) })
		b = fmt.Appendf(b, "%s q%d i%d:", it.Key, rel(it.Qval), it.Qidx)
		for _, p := range ps {
			b = fmt.Appendf(b, "(%d,%d)", rel(p.Rx), rel(p.Tx))
		}
		b = fmt.Appendf(b, " ord%v;", s.InOrder[it.Key])
	}
	for _, ex := range s.Inflight {
		b = fmt.Appendf(b, "|%s %d %d", ex.Client, rel(ntp.Time64FromTime(ex.Rx)), rel(ntp.Time64FromTime(ex.Txt0)))
	}
	return b
}
