package tsskit

import (
	"fmt"
	"time"

	"example.com/scion-time/net/ntp"

	"verif.local/mc"
)

// Params selects the alphabet and horizon of one exploration.
type Params struct {
	Clients []string
	Steps   int
	Prefill int  // nominal exchanges of Clients[0] executed before the explored part
	Prune   bool // canonical-state pruning (state = rebased store + in-flight + harness cursors + steps left)
	// FreeClientRx makes the client and receive-time choices free of
	// deviation cost (capacity scenarios); RxKinds restricts the receive-time
	// alphabet to the first n kinds (0 = all five).
	FreeClientRx bool
	RxKinds      int
	// RxSet, when set, is the receive-time alphabet itself (kinds 0..5, see Program).
	RxSet []int
}

// Program returns the explorable program: each step is either a request
// (client, kind, receive time, clock reading) or the transmit-timestamp update
// of an in-flight exchange (which one, reported time). Defaults describe the
// protocol's normal operation (one client, interleaved chain, kernel
// timestamps read); every departure costs one deviation.
func Program(p Params, onState func(s *Sys, x *mc.X)) func(x *mc.X) {
	return func(x *mc.X) {
		s := NewSys()
		newest := map[string]ntp.Time64{} // newest receive timestamp handed to each client
		oldest := map[string]ntp.Time64{}
		cRx := map[string]ntp.Time64{} // client's own rx timestamp of that reply (any distinct value)
		fail := func(f *Fail) {
			if f != nil {
				x.Failf(f.Sig, "%s", f.Msg)
			}
		}
		nominal := func(c string) {
			rx := s.MaxRx.Add(time.Second)
			req := ntp.Packet{}
			req.SetVersion(4)
			req.SetMode(ntp.ModeClient)
			req.TransmitTime = ntp.Time64FromTime(rx.Add(-time.Millisecond))
			ex, resp, f := s.H(Req{Client: c, Pkt: req, Rx: rx, Now: rx.Add(time.Millisecond)})
			fail(f)
			if _, ok := oldest[c]; !ok {
				oldest[c] = resp.ReceiveTime
			}
			newest[c] = resp.ReceiveTime
			fail(s.U(ex, ex.Txt0.Add(time.Microsecond)))
		}
		for i := 0; i < p.Prefill; i++ {
			nominal(p.Clients[0])
		}
		x.Transitions += int64(2 * p.Prefill)
		free := func(int) int { return 0 }
		var cost func(int) int
		if p.FreeClientRx {
			cost = free
		}
		nrx := 6
		if p.RxKinds > 0 {
			nrx = p.RxKinds
		}
		if p.RxSet != nil {
			nrx = len(p.RxSet)
		}
		for step := 0; step < p.Steps; step++ {
			if onState != nil {
				onState(s, x)
			}
			if p.Prune {
				k := s.Canon()
				for _, c := range p.Clients {
					k = fmt.Appendf(k, "/%v %v", newest[c], oldest[c])
				}
				x.Visit(fmt.Appendf(k, "#%d", p.Steps-step))
			}
			// operation: default = update the oldest in-flight exchange if any, else a request
			nops := 1 + len(s.Inflight)
			op := x.Choose(nops, "op")
			var doU *Exchange
			if len(s.Inflight) > 0 {
				// op 0: U oldest; op 1: H; op 2..: U of a later exchange
				switch {
				case op == 0:
					doU = s.Inflight[0]
				case op >= 2:
					doU = s.Inflight[op-1]
				}
			}
			if doU != nil {
				k := x.Choose(5, "tx")
				var rep time.Time
				switch k {
				case 0:
					rep = doU.Txt0.Add(time.Microsecond) // kernel timestamp read
				case 1:
					rep = doU.Txt0 // none read
				case 2:
					rep = doU.Rx.Add(-1) // kernel time not after rx: must be bumped
				case 3:
					rep = doU.Txt0.Add(2 * time.Microsecond) // equal to what a sibling may hold
				case 4:
					rep = doU.Rx // kernel time exactly the receive time: the strict order needs a bump
				}
				x.Logf("U(%s rx=%s reported=%s)", doU.Client, rel(doU.Rx), rel(rep))
				f := s.U(doU, rep)
				for i, e := range s.Inflight {
					if e == doU {
						s.Inflight = append(s.Inflight[:i:i], s.Inflight[i+1:]...)
						break
					}
				}
				x.Transitions++
				fail(f)
				continue
			}
			c := p.Clients[x.ChooseCost(len(p.Clients), "client", cost)]
			other := p.Clients[0]
			if c == other && len(p.Clients) > 1 {
				other = p.Clients[1]
			}
			kind := x.Choose(6, "kind")
			rxk := x.ChooseCost(nrx, "rx", cost)
			nowk := x.Choose(4, "now")
			if p.RxSet != nil {
				rxk = p.RxSet[rxk]
			} else if p.RxKinds == 3 {
				rxk = []int{0, 3, 2}[rxk]
			}
			var rx time.Time
			switch rxk {
			case 0:
				rx = s.MaxRx.Add(time.Second)
			case 1: // collide with the client's newest stored receive timestamp
				if n, ok := newest[c]; ok {
					rx = ntp.TimeFromTime64(n, T0)
					if ntp.Time64FromTime(rx) != n {
						rx = rx.Add(1)
					}
				} else {
					rx = s.MaxRx
				}
			case 2:
				rx = s.MaxRx.Add(1)
			case 3:
				rx = s.MaxRx.Add(-time.Second)
			case 5: // received just before the last activity of the store's least recently
				// active client, handled (default clock reading) after it: a packet that
				// waited in the socket buffer
				rx = s.MaxRx.Add(-2 * time.Second)
				if q, ok := s.OldestActivity(); ok {
					rx = ntp.TimeFromTime64(q, T0)
					if ntp.Time64FromTime(rx).Before(q) {
						rx = rx.Add(1)
					}
					rx = rx.Add(-1)
				}
			case 4: // equal to the other client's newest receive timestamp
				if n, ok := newest[other]; ok {
					rx = ntp.TimeFromTime64(n, T0)
					if ntp.Time64FromTime(rx) != n {
						rx = rx.Add(1)
					}
				} else {
					rx = s.MaxRx.Add(2)
				}
			}
			var now time.Time
			switch nowk {
			case 0:
				now = rx.Add(time.Millisecond)
			case 1:
				now = rx.Add(1)
			case 2:
				now = rx
			case 3:
				now = rx.Add(-1)
			}
			req := ntp.Packet{}
			req.SetVersion(4)
			req.SetMode(ntp.ModeClient)
			req.TransmitTime = ntp.Time64FromTime(rx.Add(-time.Millisecond))
			ilv := func(origin ntp.Time64) {
				req.OriginTime = origin
				req.ReceiveTime = cRx[c]
				if req.ReceiveTime == (ntp.Time64{}) {
					req.ReceiveTime = ntp.Time64{Seconds: 77, Fraction: uint32(step + 1)}
				}
				req.TransmitTime = ntp.Time64{Seconds: req.ReceiveTime.Seconds - 1, Fraction: 5}
			}
			switch kind {
			case 0: // normal operation: interleaved on the newest exchange if there is one
				if n, ok := newest[c]; ok {
					ilv(n)
				}
			case 1: // basic
			case 2: // interleaved on the oldest exchange handed out
				if n, ok := oldest[c]; ok {
					ilv(n)
				}
			case 3: // interleaved with an origin the server never issued
				ilv(ntp.Time64{Seconds: 1, Fraction: 1})
			case 4: // origin on record but receive == transmit in the request
				if n, ok := newest[c]; ok {
					ilv(n)
					req.TransmitTime = req.ReceiveTime
				}
			case 5: // origin = receive timestamp recorded for the other client
				if n, ok := newest[other]; ok {
					ilv(n)
				}
			}
			x.Logf("H(%s kind=%d rx=%s now=rx%+d origin=%v)", c, kind, rel(rx), now.Sub(rx), req.OriginTime)
			ex, resp, f := s.H(Req{Client: c, Pkt: req, Rx: rx, Now: now})
			x.Transitions++
			fail(f)
			x.Logf("  -> origin=%v rx=%v tx=%v", resp.OriginTime, resp.ReceiveTime, resp.TransmitTime)
			if _, ok := oldest[c]; !ok {
				oldest[c] = resp.ReceiveTime
			}
			newest[c] = resp.ReceiveTime
			cRx[c] = ntp.Time64{Seconds: 99, Fraction: uint32(1000 + step)}
			s.Inflight = append(s.Inflight, ex)
			x.Observe(resp.OriginTime == req.ReceiveTime, resp.TransmitTime.After(resp.ReceiveTime))
		}
		if onState != nil {
			onState(s, x)
		}
		x.Observe(string(s.Canon()))
	}
}

func rel(t time.Time) string { return fmt.Sprintf("T0%+d", t.Sub(T0)) }
