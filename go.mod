module verif.local

go 1.26

require example.com/scion-time v0.0.0

replace example.com/scion-time => /repo
