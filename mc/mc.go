// Package mc is the explorer shared by all checks: a stateless depth-first
// search over choice vectors with deviation bounding, optional
// canonical-state pruning, replay, a determinism guard and JSON reports.
//
// A "program" is an ordinary Go function that runs the code under test and
// asks the explorer for every environment decision through X.Choose. Choice 0
// is always the default (simplest) answer. The explorer re-runs the program
// for every choice vector inside the bound; nothing is sampled.
package mc

import (
	"fmt"
	"hash/fnv"
	"runtime/debug"
	"sort"
	"strings"
)

// Point is one recorded choice point of an execution.
type Point struct {
	N     int
	Label string
	cost  func(alt int) int
}

// Failure is an oracle failure (or recovered panic) of one execution.
type Failure struct {
	Signature string `json:"signature"`
	Message   string `json:"message"`
}

type stopRun struct{}

// X is one execution.
type X struct {
	e       *explorer
	prefix  []int
	Choices []int
	Points  []Point
	obs     uint64
	trace   []string
	fail    *Failure
	pruned  bool
	used    int
	diverge string
	// Transitions counts operations applied to the implementation.
	Transitions int64
	tracing     bool
}

// Choose returns a value in [0,n). 0 is the default. Every non-default
// alternative costs one deviation.
func (x *X) Choose(n int, label string) int {
	return x.ChooseCost(n, label, nil)
}

// ChooseCost is Choose with a per-alternative deviation cost (cost(0) is
// ignored and taken as 0).
func (x *X) ChooseCost(n int, label string, cost func(alt int) int) int {
	if n <= 0 {
		panic(fmt.Sprintf("mc: Choose(%d,%q)", n, label))
	}
	i := len(x.Choices)
	c := 0
	if i < len(x.prefix) {
		c = x.prefix[i]
		if c >= n {
			x.diverge = fmt.Sprintf("choice %d at point %d (%s) out of range %d", c, i, label, n)
			panic(stopRun{})
		}
	}
	if x.e != nil && i < len(x.e.expect) {
		if ex := x.e.expect[i]; ex.N != n || ex.Label != label {
			x.diverge = fmt.Sprintf("point %d: expected (%s,%d) got (%s,%d)", i, ex.Label, ex.N, label, n)
			panic(stopRun{})
		}
	}
	x.Choices = append(x.Choices, c)
	x.Points = append(x.Points, Point{N: n, Label: label, cost: cost})
	if x.tracing {
		x.trace = append(x.trace, fmt.Sprintf("%s=%d/%d", label, c, n))
	}
	return c
}

// Observe folds v into the outcome hash of the execution.
func (x *X) Observe(v ...any) {
	h := fnv.New64a()
	fmt.Fprint(h, x.obs, "|")
	fmt.Fprintln(h, v...)
	x.obs = h.Sum64()
}

// Logf appends to the decoded trace (kept only for samples and replays).
func (x *X) Logf(format string, a ...any) {
	if x.tracing {
		x.trace = append(x.trace, fmt.Sprintf(format, a...))
	}
}

// Tracing reports whether the trace is being kept (lets harnesses skip
// expensive formatting).
func (x *X) Tracing() bool { return x.tracing }

// Failf records an oracle failure with an explicit signature and ends the
// execution.
func (x *X) Failf(signature, format string, a ...any) {
	if x.fail == nil {
		x.fail = &Failure{Signature: signature, Message: fmt.Sprintf(format, a...)}
	}
	panic(stopRun{})
}

// Failed reports whether a failure was already recorded.
func (x *X) Failed() bool { return x.fail != nil }

// Visit implements canonical-state pruning: it returns true (and ends the
// execution) when key was seen before. The key must contain everything the
// future depends on, including remaining depth / budget where relevant.
func (x *X) Visit(key []byte) {
	if x.e == nil || x.e.seen == nil {
		return
	}
	if len(x.Choices) < len(x.prefix) {
		return // still replaying the prefix: the state was visited by the parent
	}
	h := fnv.New128a()
	h.Write(key)
	var k [16]byte
	copy(k[:], h.Sum(nil))
	rem := 1 << 30
	if x.e.cfg.Bound >= 0 {
		rem = x.e.cfg.Bound - x.used
	}
	if r, ok := x.e.seen[k]; ok && r >= rem {
		x.pruned = true
		x.e.rep.Pruned++
		panic(stopRun{})
	}
	x.e.seen[k] = rem
}

// Stop ends the execution normally (horizon reached).
func (x *X) Stop() { panic(stopRun{}) }

// Config bounds one exploration.
type Config struct {
	Name string
	// Bound is the maximum total deviation cost; <0 means unbounded.
	Bound int
	// Prune enables Visit.
	Prune bool
	// MaxRuns caps executions (0 = none); hitting it clears Exhaustive.
	MaxRuns int64
	// Shard i of n at the given split level of the run tree (n<=1: all).
	ShardI, ShardN int
	// Deadline polled between runs; nil = none.
	Expired func() bool
	// KeepSamples is the number of decoded traces to keep.
	KeepSamples int
	// Recover converts a panic value of the program into a failure; nil uses
	// the default (signature "panic@<top repo frame>").
	Recover func(v any, stack []byte) *Failure
	// StopAtFirst ends the exploration at the first reproduced failure of
	// each signature (default: continue, one representative per signature).
}

// Violation is a failure together with how to reproduce it.
type Violation struct {
	Failure
	Scenario string   `json:"scenario"`
	Choices  []int    `json:"choices"`
	Trace    []string `json:"trace,omitempty"`
	Repro    int      `json:"reproduced"`
	Count    int64    `json:"count"`
}

// Report is the result of one or more explorations (mergeable).
type Report struct {
	Runs        int64            `json:"runs"`
	Points      int64            `json:"points"`
	Transitions int64            `json:"transitions"`
	States      int64            `json:"states"`
	Pruned      int64            `json:"pruned"`
	Diverged    int64            `json:"diverged"`
	Outcomes    map[uint64]int64 `json:"-"`
	Bound       int              `json:"bound"`
	Exhaustive  bool             `json:"exhaustive"`
	Caps        []string         `json:"caps,omitempty"`
	Samples     []any            `json:"samples,omitempty"`
	Violations  []*Violation     `json:"violations,omitempty"`
}

type explorer struct {
	cfg    Config
	prog   func(*X)
	rep    *Report
	seen   map[[16]byte]int
	expect []Point
	vsig   map[string]*Violation
	idx    int64 // subtree ordinal for sharding
	stop   bool
}

// Explore runs prog for every choice vector within cfg.Bound.
func Explore(cfg Config, prog func(*X)) *Report {
	e := &explorer{cfg: cfg, prog: prog, vsig: map[string]*Violation{}}
	e.rep = &Report{Outcomes: map[uint64]int64{}, Bound: cfg.Bound, Exhaustive: true}
	if cfg.Prune {
		e.seen = map[[16]byte]int{}
	}
	e.explore(nil, 0, 0)
	e.rep.States = int64(len(e.seen))
	return e.rep
}

func (e *explorer) runOnce(prefix []int, used int, tracing bool) *X {
	x := &X{e: e, prefix: prefix, tracing: tracing, used: used}
	func() {
		defer func() {
			if v := recover(); v != nil {
				if _, ok := v.(stopRun); ok {
					return
				}
				st := debug.Stack()
				var f *Failure
				if e.cfg.Recover != nil {
					f = e.cfg.Recover(v, st)
				} else {
					f = PanicFailure(v, st)
				}
				if x.fail == nil {
					x.fail = f
				}
			}
		}()
		e.prog(x)
	}()
	return x
}

// PanicFailure builds a failure whose signature names the innermost
// repository frame of the panic.
func PanicFailure(v any, stack []byte) *Failure {
	return &Failure{
		Signature: "panic@" + RepoFrame(stack) + ":" + panicClass(fmt.Sprint(v)),
		Message:   fmt.Sprintf("panic: %v\n%s", v, trimStack(stack)),
	}
}

func panicClass(msg string) string {
	switch {
	case strings.Contains(msg, "index out of range"):
		return "index out of range"
	case strings.Contains(msg, "slice bounds out of range"):
		return "slice bounds out of range"
	case strings.Contains(msg, "nil pointer"):
		return "nil pointer dereference"
	case strings.Contains(msg, "makeslice"):
		return "makeslice"
	}
	if len(msg) > 60 {
		msg = msg[:60]
	}
	return msg
}

// RepoFrame returns the first function of example.com/scion-time on the
// stack below the panic (function name without arguments).
func RepoFrame(stack []byte) string {
	lines := strings.Split(string(stack), "\n")
	seenPanic := false
	for _, l := range lines {
		if strings.HasPrefix(l, "panic(") {
			seenPanic = true
			continue
		}
		if !seenPanic || strings.HasPrefix(l, "\t") {
			continue
		}
		if strings.HasPrefix(l, "example.com/scion-time/") {
			f := strings.TrimPrefix(l, "example.com/scion-time/")
			if i := strings.LastIndex(f, "("); i > 0 {
				f = f[:i]
			}
			return f
		}
	}
	// fall back: first repo frame anywhere
	for _, l := range lines {
		if strings.HasPrefix(l, "example.com/scion-time/") {
			f := strings.TrimPrefix(l, "example.com/scion-time/")
			if i := strings.LastIndex(f, "("); i > 0 {
				f = f[:i]
			}
			return f
		}
	}
	return "?"
}

func trimStack(stack []byte) string {
	lines := strings.Split(string(stack), "\n")
	if len(lines) > 40 {
		lines = lines[:40]
	}
	return strings.Join(lines, "\n")
}

func (e *explorer) explore(prefix []int, used int, level int) {
	if e.stop {
		return
	}
	if e.cfg.Expired != nil && e.cfg.Expired() {
		e.cap("deadline")
		return
	}
	if e.cfg.MaxRuns > 0 && e.rep.Runs >= e.cfg.MaxRuns {
		e.cap("max_runs")
		return
	}
	mine := true
	if e.cfg.ShardN > 1 && level == shardLevel {
		mine = int(e.idx%int64(e.cfg.ShardN)) == e.cfg.ShardI
		e.idx++
		if !mine {
			return
		}
	}
	tracing := len(e.rep.Samples) < e.cfg.KeepSamples
	// parent's recorded points are the expectation for the prefix part
	x := e.runOnce(prefix, used, tracing)
	if x.diverge != "" {
		e.rep.Diverged++
		e.rep.Exhaustive = false
		e.cap("HARNESS-NONDETERMINISM: " + x.diverge)
		return
	}
	count := !(e.cfg.ShardN > 1 && level < shardLevel && e.cfg.ShardI != 0)
	if count {
		e.rep.Runs++
		e.rep.Points += int64(len(x.Points) - len(prefix))
		e.rep.Transitions += x.Transitions
		if !x.pruned {
			e.rep.Outcomes[x.obs]++
		}
		if tracing && !x.pruned && x.fail == nil {
			e.rep.Samples = append(e.rep.Samples, map[string]any{"scenario": e.cfg.Name, "choices": append([]int{}, x.Choices...), "trace": x.trace})
		}
		if x.fail != nil {
			e.recordFailure(x)
		}
	}
	savedExpect := e.expect
	for i := len(prefix); i < len(x.Points); i++ {
		p := x.Points[i]
		for alt := 1; alt < p.N; alt++ {
			c := 1
			if p.cost != nil {
				c = p.cost(alt)
			}
			if e.cfg.Bound >= 0 && used+c > e.cfg.Bound {
				continue
			}
			np := make([]int, i+1)
			copy(np, x.Choices[:i])
			np[i] = alt
			e.expect = x.Points[:i+1]
			e.explore(np, used+c, level+1)
			if e.stop {
				break
			}
		}
	}
	e.expect = savedExpect
}

const shardLevel = 2

func (e *explorer) cap(what string) {
	e.rep.Exhaustive = false
	for _, c := range e.rep.Caps {
		if c == what {
			return
		}
	}
	e.rep.Caps = append(e.rep.Caps, what)
}

func (e *explorer) recordFailure(x *X) {
	if v, ok := e.vsig[x.fail.Signature]; ok {
		v.Count++
		return
	}
	// re-run five times from the choice vector; keep only verdicts that reproduce
	repro := 0
	var tr []string
	savedSeen := e.seen
	e.seen = nil
	defer func() { e.seen = savedSeen }()
	for k := 0; k < 5; k++ {
		saved := e.expect
		e.expect = x.Points
		y := e.runOnce(x.Choices, x.used, true)
		e.expect = saved
		if y.fail != nil && y.fail.Signature == x.fail.Signature && y.diverge == "" {
			repro++
			tr = y.trace
		}
	}
	v := &Violation{Failure: *x.fail, Scenario: e.cfg.Name, Choices: append([]int{}, x.Choices...), Trace: tr, Repro: repro, Count: 1}
	e.vsig[x.fail.Signature] = v
	if repro == 5 {
		e.rep.Violations = append(e.rep.Violations, v)
	} else {
		e.rep.Diverged++
		e.cap(fmt.Sprintf("HARNESS-NONDETERMINISM: failure %q reproduced %d/5", x.fail.Signature, repro))
	}
}

// Replay runs prog once with a scripted choice vector.
func Replay(choices []int, prog func(*X)) (*X, *Failure) {
	e := &explorer{cfg: Config{}, prog: prog, rep: &Report{Outcomes: map[uint64]int64{}}}
	x := e.runOnce(choices, 0, true)
	if x.diverge != "" {
		return x, &Failure{Signature: "HARNESS-NONDETERMINISM", Message: x.diverge}
	}
	return x, x.fail
}

// Trace returns the decoded trace of an execution.
func (x *X) Trace() []string { return x.trace }

// Merge folds b into a.
func (a *Report) Merge(b *Report) {
	a.Runs += b.Runs
	a.Points += b.Points
	a.Transitions += b.Transitions
	a.States += b.States
	a.Pruned += b.Pruned
	a.Diverged += b.Diverged
	if a.Outcomes == nil {
		a.Outcomes = map[uint64]int64{}
	}
	for k, v := range b.Outcomes {
		a.Outcomes[k] += v
	}
	a.Exhaustive = a.Exhaustive && b.Exhaustive
	for _, c := range b.Caps {
		dup := false
		for _, d := range a.Caps {
			dup = dup || c == d
		}
		if !dup {
			a.Caps = append(a.Caps, c)
		}
	}
	for _, s := range b.Samples {
		if len(a.Samples) < 6 {
			a.Samples = append(a.Samples, s)
		}
	}
outer:
	for _, v := range b.Violations {
		for _, w := range a.Violations {
			if w.Signature == v.Signature {
				w.Count += v.Count
				continue outer
			}
		}
		a.Violations = append(a.Violations, v)
	}
	sort.SliceStable(a.Violations, func(i, j int) bool { return a.Violations[i].Signature < a.Violations[j].Signature })
}

// NewReport returns an empty, exhaustive report to merge into.
func NewReport() *Report {
	return &Report{Outcomes: map[uint64]int64{}, Exhaustive: true}
}
