package mc

import (
	"encoding/json"
	"flag"
	"fmt"
	"os"
	"runtime"
	"strconv"
	"strings"
	"sync"
	"syscall"
	"testing"
	"time"
)

var (
	flagTier   = flag.String("vtier", "quick", "quick|thorough")
	flagShard  = flag.String("vshard", "0/1", "shard i/n")
	flagOut    = flag.String("vout", "", "report file")
	flagReplay = flag.String("vreplay", "", "replay file")
	flagBudget = flag.Float64("vbudget", 0, "internal deadline in seconds (0 = none)")
	flagSeed   = flag.Int64("vseed", 0, "seed (only permutes visiting order)")
	flagOnly   = flag.String("vonly", "", "run only scenarios whose name has this prefix")
)

// Run is the per-process context of a check.
type Run struct {
	T        *testing.T
	Property string
	Tier     string
	ShardI   int
	ShardN   int
	Seed     int64
	Rep      *Report
	Evals    int64
	Distinct int64
	Extra    map[string]any
	start    time.Time
	deadline time.Time
	replay   *ReplayFile
	fsig     map[string]*Violation
	scen     int64
	jmu      sync.Mutex
	jdesc    string
	jseq     int64
	capped   bool
}

// ReplayFile is what the driver writes per violation.
type ReplayFile struct {
	Property  string          `json:"property"`
	Signature string          `json:"signature"`
	Message   string          `json:"message"`
	Scenario  string          `json:"scenario"`
	Choices   []int           `json:"choices,omitempty"`
	Input     json.RawMessage `json:"input,omitempty"`
	Trace     []string        `json:"trace,omitempty"`
}

// Journal records what the process is about to execute. A watchdog started by
// Main aborts the process with a WATCHDOG-HANG report when the journal has not
// moved for hangLimit of real time (the only wall-clock element; it exists
// because a spinning goroutine inside a bubble can never be recovered
// in-process). The limit is three to four orders of magnitude above the
// normal handling time of one input.
func (r *Run) Journal(desc string) {
	r.jmu.Lock()
	r.jdesc = desc
	r.jseq++
	r.jmu.Unlock()
}

const hangLimit = 60 * time.Second

func (r *Run) watchdog() {
	var last int64 = -1
	var since time.Time
	for {
		time.Sleep(2 * time.Second)
		r.jmu.Lock()
		seq, desc := r.jseq, r.jdesc
		r.jmu.Unlock()
		if seq == 0 {
			continue // journalling not in use
		}
		if seq != last {
			last, since = seq, time.Now()
			continue
		}
		if time.Since(since) > hangLimit {
			buf := make([]byte, 1<<20)
			buf = buf[:runtime.Stack(buf, true)]
			fmt.Printf("WATCHDOG-HANG: no progress for %v\nJOURNAL: %s\n%s\n", hangLimit, desc, buf)
			os.Exit(3)
		}
	}
}

// Thorough reports whether the thorough tier was requested.
func (r *Run) Thorough() bool { return r.Tier == "thorough" }

// Pick returns q in the quick tier and t in the thorough tier.
func Pick[T any](r *Run, q, t T) T {
	if r.Thorough() {
		return t
	}
	return q
}

// realNow reads the wall clock through the system call, so that it also works
// inside a synctest bubble (where time.Now is virtual).
func realNow() time.Time {
	var tv syscall.Timeval
	if err := syscall.Gettimeofday(&tv); err != nil {
		return time.Now()
	}
	return time.Unix(tv.Sec, tv.Usec*1000)
}

// Expired reports whether the internal deadline passed.
func (r *Run) Expired() bool {
	return !r.deadline.IsZero() && realNow().After(r.deadline)
}

// Mine deals scenario-level work units round-robin over shards.
func (r *Run) Mine() bool {
	if r.Expired() {
		// internal deadline: the remaining work units are skipped and the run
		// reports exhaustive=false (never a violation)
		if !r.capped {
			r.capped = true
			r.NotExhaustive("deadline")
		}
		return false
	}
	k := r.scen
	r.scen++
	return r.ShardN <= 1 || int(k%int64(r.ShardN)) == r.ShardI
}

// Replaying reports whether this process replays a recorded violation.
func (r *Run) Replaying() bool { return r.replay != nil }

// ReplayInput returns the recorded input for a directly enumerated scenario.
func (r *Run) ReplayInput(scenario string, v any) bool {
	if r.replay == nil || r.replay.Scenario != scenario || len(r.replay.Input) == 0 {
		return false
	}
	if err := json.Unmarshal(r.replay.Input, v); err != nil {
		r.T.Fatalf("replay input: %v", err)
	}
	return true
}

// Explore runs one scenario through the explorer and merges the result. The
// scenario is sharded at explorer level unless cfg.ShardN is preset to 1.
func (r *Run) Explore(cfg Config, prog func(*X)) *Report {
	if *flagOnly != "" && !strings.HasPrefix(cfg.Name, *flagOnly) {
		return NewReport()
	}
	if r.replay != nil {
		if r.replay.Scenario == cfg.Name {
			x, f := Replay(r.replay.Choices, prog)
			for _, l := range x.Trace() {
				fmt.Println("  ", l)
			}
			if f != nil {
				fmt.Printf("REPLAY-VERDICT: FAIL signature=%q\n%s\n", f.Signature, f.Message)
				r.T.Fail()
			} else {
				fmt.Println("REPLAY-VERDICT: PASS")
			}
		}
		return NewReport()
	}
	if cfg.ShardN == 0 {
		cfg.ShardI, cfg.ShardN = r.ShardI, r.ShardN
	}
	if cfg.Expired == nil {
		cfg.Expired = r.Expired
	}
	if cfg.KeepSamples == 0 && len(r.Rep.Samples) < 4 {
		cfg.KeepSamples = 1
	}
	rep := Explore(cfg, prog)
	r.Rep.Merge(rep)
	if rep.Bound > r.Rep.Bound {
		r.Rep.Bound = rep.Bound
	}
	return rep
}

// Fail records a violation found by a directly enumerated scenario.
func (r *Run) Fail(scenario, signature, message string, input any) {
	if v, ok := r.fsig[signature]; ok {
		v.Count++
		return
	}
	raw, _ := json.Marshal(input)
	v := &Violation{Failure: Failure{Signature: signature, Message: message}, Scenario: scenario, Repro: 5, Count: 1}
	v.Trace = []string{"input=" + string(raw)}
	r.fsig[signature] = v
	r.Rep.Violations = append(r.Rep.Violations, v)
	if r.Extra["inputs"] == nil {
		r.Extra["inputs"] = map[string]json.RawMessage{}
	}
	r.Extra["inputs"].(map[string]json.RawMessage)[signature] = raw
}

// Sample keeps up to six written-out cases.
func (r *Run) Sample(v any) {
	if len(r.Rep.Samples) < 6 {
		r.Rep.Samples = append(r.Rep.Samples, v)
	}
}

// NotExhaustive records a cap that was hit.
func (r *Run) NotExhaustive(why string) {
	r.Rep.Exhaustive = false
	r.Rep.Caps = append(r.Rep.Caps, why)
}

// Main is called from the single Test function of a harness package.
func Main(t *testing.T, property string, body func(r *Run)) {
	r := &Run{T: t, Property: property, Tier: *flagTier, Seed: *flagSeed, Rep: NewReport(),
		Extra: map[string]any{}, fsig: map[string]*Violation{}, start: time.Now()}
	if env := os.Getenv("VERIF_TIER"); env != "" && *flagTier == "" {
		r.Tier = env
	}
	parts := strings.Split(*flagShard, "/")
	if len(parts) == 2 {
		r.ShardI, _ = strconv.Atoi(parts[0])
		r.ShardN, _ = strconv.Atoi(parts[1])
	}
	if r.ShardN < 1 {
		r.ShardN = 1
	}
	if *flagBudget > 0 {
		r.deadline = realNow().Add(time.Duration(*flagBudget * float64(time.Second)))
	}
	if *flagReplay != "" {
		b, err := os.ReadFile(*flagReplay)
		if err != nil {
			t.Fatal(err)
		}
		r.replay = &ReplayFile{}
		if err := json.Unmarshal(b, r.replay); err != nil {
			t.Fatal(err)
		}
	}
	go r.watchdog()
	body(r)
	r.Journal("done")
	if r.replay != nil {
		return
	}
	out := map[string]any{
		"property":   property,
		"tier":       r.Tier,
		"shard":      []int{r.ShardI, r.ShardN},
		"wall_s":     time.Since(r.start).Seconds(),
		"evals":      r.Evals,
		"distinct":   r.Distinct,
		"outcomes":   outcomeList(r.Rep.Outcomes),
		"outcomes_n": len(r.Rep.Outcomes),
		"report":     r.Rep,
		"extra":      r.Extra,
	}
	b, err := json.Marshal(out)
	if err != nil {
		t.Fatal(err)
	}
	if *flagOut != "" {
		if err := os.WriteFile(*flagOut, b, 0o644); err != nil {
			t.Fatal(err)
		}
	} else {
		var short = map[string]any{"runs": r.Rep.Runs, "evals": r.Evals, "distinct": r.Distinct, "states": r.Rep.States,
			"transitions": r.Rep.Transitions, "outcomes": len(r.Rep.Outcomes), "exhaustive": r.Rep.Exhaustive,
			"caps": r.Rep.Caps, "wall_s": time.Since(r.start).Seconds(), "extra": r.Extra}
		sb, _ := json.Marshal(short)
		fmt.Println(string(sb))
		for _, v := range r.Rep.Violations {
			fmt.Printf("FAIL %s [%s] choices=%v count=%d\n%s\n", v.Signature, v.Scenario, v.Choices, v.Count, v.Message)
			for _, l := range v.Trace {
				fmt.Println("   ", l)
			}
		}
	}
}

func outcomeList(m map[uint64]int64) []string {
	const max = 200000
	out := make([]string, 0, len(m))
	for k := range m {
		if len(out) >= max {
			break
		}
		out = append(out, strconv.FormatUint(k, 36))
	}
	return out
}
