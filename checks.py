"""Registry of checks: harness package, overlay configuration, budgets, level."""

CHECKS = {}


def reg(cid, **kw):
    kw["id"] = cid
    kw.setdefault("pkg", "harness/" + cid.lower())
    CHECKS[cid] = kw


HOOK_COMMITS = ["ca09cd0", "d5138f1"]
NOT_APPLICABLE = {}

reg("C02", level="exploration", overlay="plain",
    technique="exhaustive enumeration of multisets x fault placements x permutations over a boundary alphabet, oracle in math/big",
    level_text="Exhaustive over the stated finite input space (all multisets/fault placements/orderings over a boundary-dense alphabet up to n=7 quick, n=10 thorough): containment, midpoint exactness up to rounding, permutation invariance, slice-only-reordered and timestamp selection are checked on every element; no sampling. Right level because the functions are pure and depend on values only through comparisons and one subtraction, so boundary alphabets exercise every branch and every overflow edge.",
    budget={"quick": 600, "thorough": 1500}, workers={"quick": 8, "thorough": 16},
    assumptions=["offset alphabet is boundary-dense, not all of int64: {0,+-1,2,+-3,+-2^61,+-(2^62-1)} plus MinInt64/MaxInt64 for faulty entries",
                 "n <= 7 (quick) / 10 (thorough) for containment, n <= 7 / 8 for full permutation enumeration"])

reg("C09", level="exploration", overlay="world",
    technique="exhaustive enumeration of the datagram space against the real receive loop over an in-memory network",
    level_text="The real runIPServer and runSCIONServer loops (unmodified apart from the net/unix import paths) receive every datagram of the stated finite space; after each one the number, destination and header of the datagrams it wrote are compared with the statement's predicate. Exhaustive over the space, no sampling.",
    budget={"quick": 600, "thorough": 600}, workers={"quick": 8, "thorough": 8},
    assumptions=["header bytes 1..47 take four patterns, not all values (the request predicate reads only byte 0)",
                 "trailing data is zeros/0xff/constant or a project-encoded NTS request (optionally with one flipped bit)",
                 "kernel socket behaviour is emulated by shim/vnet + shim/vunix"])

reg("C06", level="model_checking", overlay="world",
    technique="stateless depth-first exploration of operation histories (deviation-bounded) on the real handler, also on a copy compiled with a three-client store; step-relation oracle against the store's pre-state plus a history-based reference record of the receive timestamps handed to each client",
    level_text="Every history inside the stated bounds is executed on the real handleRequest/updateTXTimestamp (through verif hooks) and every transition is judged against the statement using the store's own pre-state; states/transitions are counted, traces are implementation runs.",
    budget={"quick": 600, "thorough": 1500}, workers={"quick": 16, "thorough": 16},
    variants=[{"name": "main"}, {"name": "listener", "args": ["-vmode", "listener"]},
              {"name": "cap3", "overlay": "world", "overlay_extra": "tsscap=3", "args": ["-vmode", "cap3"]}],
    assumptions=["timestamps stay inside one NTP era", "alphabets are relative (collide / +1ns / +1s / -1s / other client's value), not all of int64",
                 "the kernel transmit timestamp is an input of updateTXTimestamp in the handler-level layer; the listener-level layer runs runIPServer with an emulated error queue"])

reg("C07", level="model_checking", overlay="plain",
    technique="exhaustive small-capacity histories (tssCap re-valued to 3 via overlay) with canonical-state pruning + run against the shipped capacity + preemption-bounded lock-level schedules + free-running race-detector pass",
    level_text="Structural invariants (map/heap agreement, back-pointers, heap order, key vs newest exchange, bounds) and the eviction rule are evaluated on every transition of all histories inside the bound on the real code; schedules of concurrent handlers are enumerated at lock level and compared with all sequential merges; data races are sought by a separate free-running -race pass.",
    budget={"quick": 600, "thorough": 1500}, workers={"quick": 16, "thorough": 16},
    variants=[{"name": "cap3", "overlay": "world", "overlay_extra": "tsscap=3"},
              {"name": "realcap", "overlay": "plain", "workers": 3},
              {"name": "sched", "overlay": "sched", "args": ["-vmode", "sched"]},
              {"name": "schedcap3", "overlay": "sched", "overlay_extra": "tsscap=3", "args": ["-vmode", "sched"]},
              {"name": "race", "overlay": "plain", "race": True, "workers": 1, "args": ["-vmode", "race"]}],
    assumptions=["capacity behaviour is explored exhaustively on a cap-3 instance (constant re-valued in the compiled copy, nothing else changed) and bound to the shipped 2^20 by one full-size run per arrival order",
                 "timestamps stay inside one NTP era (ordering across the 2036 boundary is a recorded limitation)",
                 "the race pass is a free-running execution, not an enumeration"])

reg("C04", level="exploration", overlay="plain",
    technique="exhaustive enumeration of the sub-second range and a boundary-dense seconds grid, exact oracle on time.Time",
    level_text="Time64FromTime/TimeFromTime64 are evaluated on all 10^9 nanosecond values, on all (thorough) 2^32 fractions and on a seconds grid that contains every era boundary up to 2308 with all 2^16 neighbouring offsets and both window edges; the seconds and fraction computations are independent in the code, and the cross product is taken on the boundary sets. Exhaustive over that space.",
    budget={"quick": 600, "thorough": 1500}, workers={"quick": 16, "thorough": 16},
    assumptions=["seconds offsets are boundary-dense, not all 2^32 per reference", "reference times up to 2^33 s after 1900"])

reg("C18", level="exploration", overlay="plain",
    technique="exhaustive enumeration of residues / kernel ppm range / 16-bit field slices with math/big oracles",
    level_text="Every function is evaluated on a space that is complete in the dimension its arithmetic branches on (all 10^9 remainders, all 65 536 001 scaled-ppm values, all values of each 16-bit slice of the 48-bit seconds, all 2^16 low words of a correction field) and boundary-dense elsewhere; results are compared with arbitrary-precision arithmetic.",
    budget={"quick": 600, "thorough": 900}, workers={"quick": 16, "thorough": 16},
    assumptions=["quotients / high words are boundary sets, not all values", "Drift is checked on driver/clocks.SystemClock (no syscalls are made by Drift)"])

reg("C14", level="exploration", overlay="plain",
    technique="exhaustive byte-level and shape-level enumeration of encodings; exhaustive stream segmentations through a scripted io.Reader",
    level_text="Round trips are checked on every value of every byte (and byte pair) of the fixed-layout codecs, on every NTS packet shape that fits the packet size, and on every segmentation (all cuts, all pairs of cuts, all 2^17 segmentations of a short stream) of NTS-KE record streams. Exhaustive over that space.",
    budget={"quick": 600, "thorough": 900}, workers={"quick": 1, "thorough": 1},
    assumptions=["fields wider than 16 bits are exercised through every byte and adjacent byte pair on three base patterns, not through all values",
                 "padding bytes written by the NTS encoder are zero (checked) and ignored by the comparison"])

reg("C19", level="model_checking", overlay="plain",
    technique="stateless exploration of update histories on the real Pll against a reference phase machine, scripted clock",
    level_text="Every update history inside the bounds runs on the real adjustments.Pll with a scripted clock recording Step/Adjust; after every update the actuation is compared with a four-phase reference machine written from the statement (when a Step is due and with what value, slew limit, duration, finiteness, restart on epoch change).",
    budget={"quick": 600, "thorough": 900}, workers={"quick": 16, "thorough": 16},
    assumptions=["offset MinInt64 is outside the alphabet (the double negation saturates; documented in DESIGN.md)", "clock readings are non-decreasing"])

reg("C17", level="model_checking", overlay="plain",
    technique="exhaustive enumeration of sample histories against a reference model (lucky packet) and a differential fresh-filter oracle (Ntimed)",
    level_text="All histories inside the bounds are run on the real filters; the lucky-packet output is compared with a 10-line reference model after every sample, the Ntimed filter with the statement's raw-output rules (using the bounds the filter itself reports) and with a fresh filter after every reset / epoch change.",
    budget={"quick": 600, "thorough": 900}, workers={"quick": 16, "thorough": 16},
    assumptions=["round-trip delays within a window are pairwise distinct (as the statement requires)", "Ntimed learned bounds are observed through the filter's own debug log record", "float tolerance 2 ns"])

reg("C12", level="model_checking", overlay="plain",
    technique="stateless exploration of call/time histories in synctest virtual time with canonical-state pruning, reference key list; lock-level schedules; free-running race pass",
    level_text="The real Provider runs under the bubble's virtual clock; every history inside the bounds is executed and after every step Current and Get (on every identifier ever issued and on unissued ones) are compared with a reference list of (id, generation time, last issue). Concurrency: all lock-level interleavings of 2-3 threads within the preemption bound are compared with the sequential model, and a separate free-running -race pass looks for unsynchronised accesses.",
    budget={"quick": 600, "thorough": 900}, workers={"quick": 16, "thorough": 16},
    variants=[{"name": "main"}, {"name": "sched", "overlay": "sched", "args": ["-vmode", "sched"]},
              {"name": "race", "race": True, "workers": 1, "args": ["-vmode", "race"]}],
    assumptions=["time advances in steps from a 13-value alphabet around the thresholds", "crypto/rand is a deterministic counter stream"])

reg("C16", level="model_checking", overlay="plain",
    technique="exhaustive enumeration of event orders in synctest virtual time (one event per big step), lock-free guard under all CAS interleavings, free-running race pass",
    level_text="MeasureClockOffsets runs in a bubble; clock callbacks are parked harness functions, so the explorer decides the total order of clock returns and the cancellation and checks return timing, result slice and goroutine quiescence on every order; the in-progress guard is explored under all interleavings of its compare-and-swap operations with the cooperative scheduler.",
    budget={"quick": 600, "thorough": 900}, workers={"quick": 16, "thorough": 16},
    variants=[{"name": "main"}, {"name": "sched", "overlay": "sched", "args": ["-vmode", "sched"], "workers": 1},
              {"name": "race", "race": True, "workers": 1, "args": ["-vmode", "race"]}],
    assumptions=["simultaneously ready events are equivalent to one of their sequential orders (reduction argument in DESIGN.md section 3)"])

reg("C01", level="model_checking", overlay="plain",
    technique="stateless exploration of multi-round source histories on the real sync.Run loop in synctest virtual time, reference model for clean rounds",
    level_text="sync.Run itself (context timeouts, collector goroutines, clamps, midpoint) runs in a bubble against scripted sources and a recording discipline; every history inside the bounds is executed and each round is held to exactly-one-correction, the applicable cap, and - where every source answered in time - a reference model of the statement.",
    budget={"quick": 600, "thorough": 1200}, workers={"quick": 16, "thorough": 16},
    assumptions=["rounds after a failed or late source are held to the bound and the exactly-once rule only (the statement does not determine which stale slot values are aggregated)",
                 "group aggregates of the model use the repository's own FaultTolerantMidpoint (decided separately by C02)"])

reg("C03", level="model_checking", overlay="world",
    technique="stateless deviation-bounded exploration of network/clock behaviours around the real client (and real listener) over an in-memory network, ground-truth oracle",
    level_text="The real IPClient/SCIONClient code (request construction, interleaved state machine, receive loop, timestamp extraction) runs in a bubble over vnet; the explorer enumerates every combination of loss, duplication, staleness, delays, server clock steps, port reuse and timestamp availability inside the deviation bound, and each accepted measurement is matched against the harness's ground-truth log of exchanges.",
    budget={"quick": 600, "thorough": 1200}, workers={"quick": 16, "thorough": 16},
    assumptions=["clock readings are strictly increasing (1 ns per reading)", "a kernel transmit timestamp is 2 us later than the sender's preceding clock reading (never equal to it)", "delays and offsets come from small alphabets; the inequality is scale-free",
                 "hardware timestamping (iface != \"\") is not modelled"])

reg("C05", level="model_checking", overlay="world",
    technique="exhaustive enumeration of crafted-datagram sequences against the real client over an in-memory network, acceptance-predicate oracle",
    level_text="Every ordered pair of datagrams from the mutation catalogue is injected for the outstanding basic and interleaved request of the real client; a reported measurement is accepted by the oracle only if the datagram it was computed from satisfies the predicate written from the statement (fault enumeration flavour of model checking: states = distinct (accepted?, consumed) classes).",
    budget={"quick": 600, "thorough": 1200}, workers={"quick": 16, "thorough": 16},
    assumptions=["mutations are single-field; arbitrary byte strings are covered by C08's grammars", "NTS and SCION variants are separate scenarios of this check"])

reg("C20", level="model_checking", overlay="world",
    technique="exhaustive enumeration of scripted-peer behaviours and call histories around the real Fetcher with real TLS 1.3 handshakes over in-memory streams",
    level_text="The real Fetcher/dialTLS/ReadData/ExportKeys code performs a complete TLS 1.3 handshake with a scripted peer inside a bubble for every script of the grammar and every history of scripts inside the bound; success/failure is compared with the statement's predicate evaluated on the script, keys with the peer's own exporter values, the pool with the cookies sent, and the state after a failure with 'nothing left'.",
    budget={"quick": 600, "thorough": 1200}, workers={"quick": 16, "thorough": 16},
    assumptions=["TLS certificate verification and the TLS 1.3 minimum are outside the property", "QUIC/SCION transport of the same exchange is not executed (it shares ReadData/ExportKeys)",
                 "scripts deviate from the valid exchange in one place"])

reg("C11", level="model_checking", overlay="world",
    technique="stateless deviation-bounded exploration of loss/time histories around the real NTS client, listener, key-exchange handler and key provider in one bubble; wire-level oracle",
    level_text="Client pool accounting, request construction at every pool level, server cookie replenishment and key rotation all run as shipped (real TLS key exchange, real AEAD) inside a bubble; the explorer enumerates loss runs and day-scale time steps inside the bound and judges every request and reply on the wire.",
    budget={"quick": 600, "thorough": 1200}, workers={"quick": 16, "thorough": 16},
    assumptions=["over SCION the NTS-protected exchange runs through the real SCIONClient and runSCIONServer; the key exchange itself uses the TLS transport (QUIC is outside the explored system)", "cookies are the 124-byte cookies the project's servers issue"])

reg("C10", level="exploration", overlay="world",
    technique="exhaustive single-bit / field / truncation / key mutation of every encoded NTS request, response and cookie, judged by the real listener and client functions",
    level_text="For every packet the project's encoder emits at pool levels 2..8 (requests), 1..7 cookies (responses) and for sealed cookies, all single-bit flips, all type/length field values from the alphabet, all truncations and key/identifier swaps are enumerated; requests are judged by the real listener (reply or not), responses and cookies by the real functions. Exhaustive over that mutation space.",
    budget={"quick": 600, "thorough": 600}, workers={"quick": 8, "thorough": 8},
    assumptions=["mutations are single-site", "the authenticator field's own type/length header is not covered by the AEAD and is excluded from the must-reject region (a changed type is still rejected, checked by construction)"])

reg("C13", level="exploration", overlay="world",
    technique="exhaustive product of crafted SCION packets (SCION library builders) against the real SCION listener loops over an in-memory network, replies parsed with the library",
    level_text="Every packet of the stated product is handled by the real runSCIONServer (gopacket parsing, authenticator check with keys from the library's DRKey derivation, path reversal, forwarding) and the datagrams it writes are compared with the statement: who is served, where the reply goes, reversed path, swapped addresses and ports, authenticator on the reply, forwarding condition. Exhaustive over the product and over all single-bit flips of a verified request.",
    budget={"quick": 600, "thorough": 900}, workers={"quick": 2, "thorough": 2},
    variants=[{"name": "main"}, {"name": "mockkeys", "env": {"USE_MOCK_KEYS": "true"}}],
    assumptions=["DRKeys come from a fake daemon using the library's own derivation (variant mockkeys: the project's USE_MOCK_KEYS switch); a real DRKey service is not available",
                 "hop-field MACs are not validated by an end host and are arbitrary here"])

reg("C08", level="fault_enumeration", overlay="world",
    technique="exhaustive enumeration of a finite structure-aware mutation space against every real receive loop, handler and client over an in-memory network, sentinel after each input",
    level_text="Totality over all byte strings cannot be enumerated; decided here is totality over a stated finite mutation space (every truncation / byte value / 16-bit field of every valid message of every protocol, plus small TLV grammars), fed to the real listeners, the NTS-KE handler behind a real TLS session, the real clients and the decoders. A panic, a receive loop that does not return to its read, an unanswered sentinel or a client call that does not return is a violation.",
    budget={"quick": 600, "thorough": 1800}, workers={"quick": 13, "thorough": 13},
    variants=[{"name": "main"}, {"name": "mockkeys", "env": {"USE_MOCK_KEYS": "true"}, "args": ["-vtarget", "listeners"], "workers": 6}],
    assumptions=["arbitrary multi-site garbage beyond the grammars is not covered", "the QUIC listener (real quic-go transport) is outside the explored system",
                 "resource exhaustion (unbounded cookie records in one NTS-KE message) is not covered", "a 60 s real-time watchdog detects spinning loops"])

reg("C15", level="model_checking", overlay="world", gomaxprocs=1,
    technique="deviation-bounded exploration of path sets / client states / random outcomes / completion orders around the real multipath measurement; exhaustive enumeration of the random primitives through a scripted crypto/rand.Reader",
    level_text="Part 1 runs MeasureClockOffsetSCION with real clients and the real listener in a bubble and judges path assignment (observed per next hop on the wire), stickiness/reset and the combined result on every execution inside the bound. Part 2 feeds all 2^32 words to RandIntn and all outcome sequences to Sample and checks uniformity by counting.",
    budget={"quick": 600, "thorough": 1500}, workers={"quick": 16, "thorough": 16},
    variants=[{"name": "main"}, {"name": "uniform", "args": ["-vmode", "uniform"]}],
    assumptions=["a client is identified on the wire by a distinct DSCP value, a path by its underlay next hop", "RandIntn is enumerated for n in {2,3} (quick) / 2..16 (thorough), Sample for n <= 6 (7)"])
