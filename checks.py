"""Registry of checks: harness package, overlay configuration, budgets, level."""

CHECKS = {}


def reg(cid, **kw):
    kw["id"] = cid
    kw.setdefault("pkg", "harness/" + cid.lower())
    CHECKS[cid] = kw


HOOK_COMMITS = []
NOT_APPLICABLE = {}

reg("C02", level="exploration", overlay="plain",
    technique="exhaustive enumeration of multisets x fault placements x permutations over a boundary alphabet, oracle in math/big",
    level_text="Exhaustive over the stated finite input space (all multisets/fault placements/orderings over a boundary-dense alphabet up to n=7 quick, n=10 thorough): containment, midpoint exactness up to rounding, permutation invariance, slice-only-reordered and timestamp selection are checked on every element; no sampling. Right level because the functions are pure and depend on values only through comparisons and one subtraction, so boundary alphabets exercise every branch and every overflow edge.",
    budget={"quick": 120, "thorough": 1500}, workers={"quick": 8, "thorough": 16},
    assumptions=["offset alphabet is boundary-dense, not all of int64: {0,+-1,2,+-3,+-2^61,+-(2^62-1)} plus MinInt64/MaxInt64 for faulty entries",
                 "n <= 7 (quick) / 10 (thorough) for containment, n <= 7 / 8 for full permutation enumeration"])
