"""Registry of checks: harness package, overlay configuration, budgets, level."""

CHECKS = {}


def reg(cid, **kw):
    kw["id"] = cid
    kw.setdefault("pkg", "harness/" + cid.lower())
    CHECKS[cid] = kw


HOOK_COMMITS = ["ca09cd0"]
NOT_APPLICABLE = {}

reg("C02", level="exploration", overlay="plain",
    technique="exhaustive enumeration of multisets x fault placements x permutations over a boundary alphabet, oracle in math/big",
    level_text="Exhaustive over the stated finite input space (all multisets/fault placements/orderings over a boundary-dense alphabet up to n=7 quick, n=10 thorough): containment, midpoint exactness up to rounding, permutation invariance, slice-only-reordered and timestamp selection are checked on every element; no sampling. Right level because the functions are pure and depend on values only through comparisons and one subtraction, so boundary alphabets exercise every branch and every overflow edge.",
    budget={"quick": 120, "thorough": 1500}, workers={"quick": 8, "thorough": 16},
    assumptions=["offset alphabet is boundary-dense, not all of int64: {0,+-1,2,+-3,+-2^61,+-(2^62-1)} plus MinInt64/MaxInt64 for faulty entries",
                 "n <= 7 (quick) / 10 (thorough) for containment, n <= 7 / 8 for full permutation enumeration"])

reg("C09", level="exploration", overlay="world",
    technique="exhaustive enumeration of the datagram space against the real receive loop over an in-memory network",
    level_text="The real runIPServer loop (unmodified apart from the net/unix import paths) receives every datagram of the stated finite space; after each one the number, destination and header of the datagrams it wrote are compared with the statement's predicate. Exhaustive over the space, no sampling.",
    budget={"quick": 120, "thorough": 600}, workers={"quick": 2, "thorough": 2},
    assumptions=["header bytes 1..47 take four patterns, not all values (the request predicate reads only byte 0)",
                 "trailing data is zeros/0xff/constant or a project-encoded NTS request (optionally with one flipped bit)",
                 "kernel socket behaviour is emulated by shim/vnet + shim/vunix"])
