// Package world closes the system around the code under test: one World per
// execution, living inside a testing/synctest bubble, owning the virtual
// network, the registered system clock, crypto/rand and the harness threads.
// The explorer goroutine (the bubble's root) is the only one that ever makes
// another goroutine runnable; after each such step it calls Settle, which
// returns when every other goroutine is durably blocked again.
package world

import (
	"bytes"
	crand "crypto/rand"
	"encoding/binary"
	"fmt"
	"io"
	"log/slog"
	"os"
	"runtime"
	"runtime/debug"
	"sync"
	"testing"
	"testing/synctest"
	"time"

	"github.com/prometheus/client_golang/prometheus"

	"example.com/scion-time/core/timebase"

	"verif.local/mc"
	"verif.local/shim/vnet"
)

// Epoch is the instant every bubble starts at (synctest's fixed start).
var Epoch = time.Date(2000, 1, 1, 0, 0, 0, 0, time.UTC)

// PanicInfo is a panic recovered on a harness thread.
type PanicInfo struct {
	Thread string
	Value  any
	Stack  []byte
}

// Thread is a goroutine started through World.Go.
type Thread struct {
	Name string
	done chan struct{}
	Dead bool
}

// World is the environment of one execution.
type World struct {
	T       *testing.T
	X       *mc.X
	Net     *vnet.Net
	Clock   *Clock
	Rand    *CounterReader
	Log     *slog.Logger
	mu      sync.Mutex
	threads []*Thread
	Panics  []PanicInfo
}

var (
	regOnce  sync.Once
	origRand = crand.Reader
)

// Discard is a logger that drops everything.
var Discard = slog.New(slog.NewTextHandler(io.Discard, &slog.HandlerOptions{Level: slog.LevelError + 4}))

// Run executes body inside a fresh bubble with a fresh world. A panic of the
// body (including mc's stop signal) is re-raised outside the bubble.
func Run(t *testing.T, x *mc.X, body func(w *World)) {
	regOnce.Do(func() { timebase.RegisterClock(proxy{}) })
	var pv any
	var stack []byte
	synctest.Test(t, func(t *testing.T) {
		w := &World{T: t, X: x, Net: vnet.New(), Rand: &CounterReader{}, Log: Discard}
		if os.Getenv("VERIF_DEBUG") != "" {
			w.Log = slog.New(slog.NewTextHandler(os.Stderr, &slog.HandlerOptions{Level: slog.LevelDebug}))
		}
		w.Clock = NewClock(w)
		w.Net.Now = w.Clock.Now
		curClock.Store(w.Clock)
		vnet.Install(w.Net)
		crand.Reader = w.Rand
		prometheus.DefaultRegisterer = prometheus.NewRegistry()
		defer func() {
			if v := recover(); v != nil {
				pv = v
				stack = debug.Stack()
			}
			w.shutdown()
			crand.Reader = origRand
		}()
		body(w)
	})
	if pv != nil {
		if _, ok := pv.(error); ok || fmt.Sprint(pv) != "" {
			_ = stack
		}
		panic(pv)
	}
}

// FreshRegistry re-points the Prometheus default registerer (promauto panics
// on duplicate registration).
func FreshRegistry() { prometheus.DefaultRegisterer = prometheus.NewRegistry() }

// Go starts a harness thread; panics are recovered and recorded.
func (w *World) Go(name string, f func()) *Thread {
	th := &Thread{Name: name, done: make(chan struct{})}
	w.mu.Lock()
	w.threads = append(w.threads, th)
	w.mu.Unlock()
	go func() {
		defer close(th.done)
		defer func() {
			th.Dead = true
			if v := recover(); v != nil {
				w.mu.Lock()
				w.Panics = append(w.Panics, PanicInfo{Thread: name, Value: v, Stack: debug.Stack()})
				w.mu.Unlock()
			}
		}()
		f()
	}()
	return th
}

// Settle waits until every other goroutine of the bubble is durably blocked.
func (w *World) Settle() { synctest.Wait() }

// Advance lets virtual time pass (timers due fire in order), then settles.
func (w *World) Advance(d time.Duration) {
	if d > 0 {
		time.Sleep(d)
	}
	synctest.Wait()
}

// Finished reports whether the thread returned or panicked.
func (th *Thread) Finished() bool {
	select {
	case <-th.done:
		return true
	default:
		return false
	}
}

// CheckPanics turns the first recorded thread panic into a failure of x.
func (w *World) CheckPanics() {
	w.mu.Lock()
	ps := w.Panics
	w.mu.Unlock()
	if len(ps) == 0 {
		return
	}
	p := ps[0]
	f := mc.PanicFailure(p.Value, p.Stack)
	w.X.Failf(f.Signature, "thread %s: %s", p.Thread, f.Message)
}

func (w *World) shutdown() {
	w.Net.Shutdown()
	w.Clock.shutdown()
	synctest.Wait()
}

// CounterReader is the deterministic crypto/rand.Reader of an execution.
type CounterReader struct {
	mu sync.Mutex
	n  uint64
	// Script, when non-empty, supplies the next 32-bit words (little endian)
	// before the counter stream resumes.
	Script []uint32
	Words  int
}

func (r *CounterReader) Read(p []byte) (int, error) {
	r.mu.Lock()
	defer r.mu.Unlock()
	for i := 0; i < len(p); {
		var w [8]byte
		if len(r.Script) > 0 && len(p)-i >= 4 && i%4 == 0 {
			binary.LittleEndian.PutUint32(w[:4], r.Script[0])
			r.Script = r.Script[1:]
			r.Words++
			i += copy(p[i:], w[:4])
			continue
		}
		r.n++
		x := r.n * 0x9e3779b97f4a7c15
		x ^= x >> 29
		binary.LittleEndian.PutUint64(w[:], x|1<<63|1<<31)
		i += copy(p[i:], w[:])
	}
	return len(p), nil
}

func registerProxy() { timebase.RegisterClock(proxy{}) }

// BubbleGoroutines returns the number of goroutines of the current synctest
// bubble (the caller included), read from the runtime's own goroutine dump.
func BubbleGoroutines() int {
	buf := make([]byte, 1<<16)
	for {
		n := runtime.Stack(buf, true)
		if n < len(buf) {
			buf = buf[:n]
			break
		}
		buf = make([]byte, 2*len(buf))
	}
	return bytes.Count(buf, []byte("synctest bubble "))
}
