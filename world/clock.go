package world

import (
	"verif.local/sched"

	"runtime"
	"sync"
	"sync/atomic"
	"time"
)

// Adj is one recorded Adjust call.
type Adj struct {
	Offset, Duration time.Duration
	Frequency        float64
}

// Clock is the scripted system clock of an execution. Its reading is the
// bubble's virtual time plus Offset plus one nanosecond per earlier reading
// (consecutive readings differ, as on Linux) unless Frozen.
type Clock struct {
	w        *World
	mu       sync.Mutex
	Offset   time.Duration
	ticks    int64
	NoTick   bool
	EpochV   uint64
	DriftPPB int64 // Drift(d) = d * DriftPPB / 1e9
	// DriftFixed, when non-zero, is returned by Drift for every interval (for
	// bounds too large to be formed as a product in int64)
	DriftFixed time.Duration
	// StepBumpsEpoch mirrors driver/clocks.SystemClock.Step.
	StepBumpsEpoch bool
	Steps          []time.Duration
	Adjs           []Adj
	Sleeps         []time.Duration
	Readings       int64
	// OnSleep, if set, replaces the default Sleep behaviour (block on the
	// bubble's virtual time). It runs on the calling goroutine.
	OnSleep func(d time.Duration)
	// Fixed, if non-nil, supplies successive readings (scripted clock).
	Fixed func() time.Time
	done  chan struct{}
}

func NewClock(w *World) *Clock {
	return &Clock{w: w, DriftPPB: 50_000, done: make(chan struct{})}
}

func (c *Clock) shutdown() {
	select {
	case <-c.done:
	default:
		close(c.done)
	}
}

// Done is closed at the end of the execution.
func (c *Clock) Done() <-chan struct{} { return c.done }

func (c *Clock) Epoch() uint64 {
	c.mu.Lock()
	defer c.mu.Unlock()
	return c.EpochV
}

func (c *Clock) Now() time.Time {
	sched.Point("clock", nil)
	c.mu.Lock()
	defer c.mu.Unlock()
	c.Readings++
	if c.Fixed != nil {
		return c.Fixed()
	}
	if !c.NoTick {
		c.ticks++
	}
	return time.Now().Add(c.Offset + time.Duration(c.ticks)).UTC()
}

// Peek reads the clock without consuming a tick.
func (c *Clock) Peek() time.Time {
	c.mu.Lock()
	defer c.mu.Unlock()
	return time.Now().Add(c.Offset + time.Duration(c.ticks)).UTC()
}

func (c *Clock) Drift(d time.Duration) time.Duration {
	if c.DriftFixed != 0 {
		return c.DriftFixed
	}
	return time.Duration(int64(d) * c.DriftPPB / 1_000_000_000)
}

func (c *Clock) Step(offset time.Duration) {
	c.mu.Lock()
	defer c.mu.Unlock()
	c.Steps = append(c.Steps, offset)
	c.Offset += offset
	if c.StepBumpsEpoch {
		c.EpochV++
	}
}

func (c *Clock) Adjust(offset, duration time.Duration, frequency float64) {
	c.mu.Lock()
	defer c.mu.Unlock()
	c.Adjs = append(c.Adjs, Adj{offset, duration, frequency})
}

func (c *Clock) Sleep(d time.Duration) {
	c.mu.Lock()
	c.Sleeps = append(c.Sleeps, d)
	f := c.OnSleep
	c.mu.Unlock()
	if f != nil {
		f(d)
		return
	}
	t := time.NewTimer(d)
	defer t.Stop()
	select {
	case <-t.C:
	case <-c.done:
		runtime.Goexit()
	}
}

var curClock atomic.Pointer[Clock]

// proxy is the process-wide registered clock; it forwards to the clock of the
// current execution.
type proxy struct{}

func (proxy) Epoch() uint64                        { return curClock.Load().Epoch() }
func (proxy) Now() time.Time                       { return curClock.Load().Now() }
func (proxy) Drift(d time.Duration) time.Duration  { return curClock.Load().Drift(d) }
func (proxy) Step(o time.Duration)                 { curClock.Load().Step(o) }
func (proxy) Adjust(o, d time.Duration, f float64) { curClock.Load().Adjust(o, d, f) }
func (proxy) Sleep(d time.Duration)                { curClock.Load().Sleep(d) }

// UseClock installs c as the current clock outside a bubble (pure harnesses).
func UseClock(c *Clock) {
	regOnce.Do(func() { registerProxy() })
	curClock.Store(c)
}
