#!/usr/bin/env python3
"""Prints the DESIGN.md table rows for one round of seeded changes.
usage: gen_seed_table.py r6   (result texts: tools/seed_results_<round>.json, keyed by directory name;
default text from mutations/RESULTS.json: 'detected by the quick tier as it stood (`sig`)')"""
import json, glob, os, sys
rnd = sys.argv[1]
res = json.load(open('/verif/mutations/RESULTS.json'))
notes = {}
p = '/verif/tools/seed_results_%s.json' % rnd
if os.path.exists(p):
    notes = json.load(open(p))
def cut(s, n=170):
    return s.replace('\n', ' ').replace('|', '/')[:n]
print('| seeded change | what it changes | needs to manifest | result |\n|---|---|---|---|')
for d in sorted(glob.glob('/verif/seeded/*-%s-*' % rnd)):
    name = os.path.basename(d)
    m = json.load(open(d + '/meta.json'))
    r = res.get('seeded/' + name, {})
    sigs = [s for k, v in r.items() if isinstance(v, dict) and v.get('rc') == 1 for s in v.get('signatures', [])[:1]]
    txt = notes.get(name) or ('detected by the quick tier as it stood' + (' (`%s`)' % sigs[0] if sigs else ''))
    print('| `%s` | %s | %s | %s |' % (name, cut(m.get('summary', '')), cut(m.get('needs_to_manifest', '')), txt))
