#!/usr/bin/env python3
"""Confirm a sub-agent's seeded change in its scratch worktree and file it under /verif/seeded/.

usage: confirm_seed.py Cxx [slug]
Checks, in /tmp/seed-Cxx: demo passes on the original code; with SEED/patch.diff applied the
project builds, the existing tests pass (demo moved aside) and the demo fails."""
import json, os, shlex, shutil, subprocess, sys
cid = sys.argv[1]
prefix = os.environ.get("SEED_PREFIX", "seed")
wt = "/tmp/%s-%s" % (prefix, cid)
env = dict(os.environ, GOFLAGS="-mod=mod")
def sh(cmd, **kw):
    return subprocess.run(cmd, shell=True, cwd=wt, env=env, capture_output=True, text=True, timeout=900, **kw)
meta = json.load(open(wt + "/SEED/meta.json"))
demo = meta.get("demo_path")
cmd = meta.get("demo_cmd")
print("demo:", demo, "|", cmd)
sh("git checkout -- .")
res = {}
r = sh("timeout 600 bash -c " + shlex.quote(cmd))
res["demo_passes_without_change"] = r.returncode == 0
a = sh("git apply --whitespace=nowarn SEED/patch.diff")
if a.returncode != 0:
    print("patch does not apply:", a.stderr); sys.exit(1)
res["build"] = sh("timeout 600 go build ./...").returncode == 0
r = sh("timeout 600 bash -c " + shlex.quote(cmd))
res["demo_fails_with_change"] = r.returncode != 0
demo_tail = (r.stdout + r.stderr)[-600:]
# existing suite with the demo moved aside
moved = []
for f in subprocess.run("git ls-files --others --exclude-standard", shell=True, cwd=wt, capture_output=True, text=True).stdout.split():
    if f.startswith("SEED/") or not f.endswith(".go"):
        continue
    os.rename(os.path.join(wt, f), os.path.join(wt, f + ".aside")); moved.append(f)
r = sh("timeout 800 go test -vet=off -count=1 ./... 2>&1 | grep -c '^FAIL\\|^--- FAIL'")
res["suite_passes_with_change"] = r.stdout.strip() == "0"
for f in moved:
    os.rename(os.path.join(wt, f + ".aside"), os.path.join(wt, f))
sh("git checkout -- .")
print(json.dumps(res))
ok = all(res.values())
if not ok:
    print("NOT CONFIRMED", demo_tail); sys.exit(2)
slug = sys.argv[2] if len(sys.argv) > 2 else "agent"
dst = "/verif/seeded/%s-%s" % (cid, slug)
if prefix != "seed":
    dst = "/verif/seeded/%s-%s-%s" % (cid, {"seed2": "r2", "seed3": "r3", "seed4": "r4", "seed5": "r5", "seed6": "r6"}.get(prefix, prefix), slug)
os.makedirs(dst, exist_ok=True)
shutil.copy(wt + "/SEED/patch.diff", dst + "/patch.diff")
if demo and os.path.exists(os.path.join(wt, demo)):
    shutil.copy(os.path.join(wt, demo), dst + "/" + os.path.basename(demo) + ".txt")
meta["confirmed_by_me"] = res
meta["what_i_ran"] = ["git checkout -- . && " + cmd + "  (passes)", "git apply SEED/patch.diff && go build ./... && " + cmd + "  (fails)", "existing suite with the demo moved aside: go test -vet=off -count=1 ./...  (passes)"]
json.dump(meta, open(dst + "/meta.json", "w"), indent=1)
print("filed", dst)
