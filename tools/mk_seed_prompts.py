#!/usr/bin/env python3
"""Creates scratch worktrees of /repo under /tmp and one prompt file per property
for a round of independent sub-agents that seed property-breaking changes.
The prompt contains only the property text, the summaries of earlier seeded
changes for that property (so that the new one differs) and a focus hint;
nothing from the checks.  usage: mk_seed_prompts.py <round> [ids...]"""
import json, glob, os, subprocess, sys

rnd = sys.argv[1]
only = set(sys.argv[2:])
prev = {}
for d in sorted(glob.glob('/verif/seeded/*')):
    m = json.load(open(d + '/meta.json'))
    prev.setdefault(m['property'], []).append(m.get('summary', '').replace('\n', ' ')[:300])
hints = json.load(open('/verif/tools/seed_hints_r%s.json' % rnd))
tmpl = open('/verif/tools/seed_prompt.tmpl').read()
for l in open('/verif/properties.jsonl'):
    p = json.loads(l)
    cid = p['id']
    if only and cid not in only:
        continue
    wt = '/tmp/seed%s-%s' % (rnd, cid)
    if not os.path.exists(wt):
        subprocess.run(['git', '-C', '/repo', 'worktree', 'add', '-q', '--detach', wt, 'HEAD'], check=True)
    prop = "%s: %s\n\nStatement: %s\n\nQuantifier: %s\n\nAnchors (files): %s\n" % (cid, p['title'], p['statement'], p['quantifier']['text'], ', '.join(p['anchors']['files']))
    open(wt + '/PROPERTY.txt', 'w').write(prop)
    earlier = "\n".join('  %d. "%s"' % (i + 1, s.replace('"', "'")) for i, s in enumerate(prev.get(cid, [])))
    open('/tmp/prompt%s-%s.txt' % (rnd, cid), 'w').write(
        tmpl.replace('{WT}', wt).replace('{PROP}', prop).replace('{ID}', cid).replace('{EARLIER}', earlier).replace('{HINT}', hints[cid]))
print('ok')
