#!/usr/bin/env python3
"""Regenerates DESIGN.md section 13 (per-property coverage as built) from the
committed quick-tier evidence files and checks.py."""
import json, os, re, sys
ROOT = os.path.dirname(os.path.dirname(os.path.abspath(__file__)))
sys.path.insert(0, ROOT)
import checks

def fmt(n):
    return "{:,}".format(n)

rows = []
for cid in sorted(checks.CHECKS):
    chk = checks.CHECKS[cid]
    e = json.load(open(os.path.join(ROOT, "evidence", cid + ".json")))
    c = e["coverage"]
    pops = ", ".join(v.get("name", "main") for v in (chk.get("variants") or [{"name": "main"}]))
    rule = c.get("rule", "")
    for k in sorted(c):
        if k.startswith("rule_"):
            rule += " || " + str(c[k])
    counts = "; ".join("%s %s" % (k, fmt(c[k])) for k in ("executions", "evaluations", "states", "transitions") if c.get(k))
    if not c.get("exhaustive", True):
        counts += "; NOT exhaustive: " + ", ".join(map(str, c.get("caps", [])))
    rows.append("| %s | %s | %s | %s | %s |" % (cid, e["level"], pops, rule.replace("|", "/").replace("/ /", "||"), counts))
head = """## 13. Per-property coverage as built (generated from the quick-tier evidence files)

The `rule` strings below are written by the harnesses themselves and are the
authoritative statement of what a quick run enumerates (thorough values in
parentheses; `||` separates the worker populations of one check); counts are
from the committed quick-tier evidence. Regenerate with `python3 tools/gen_coverage.py`.

| id | level | worker populations | space enumerated (quick, thorough in parentheses) | quick counts |
|---|---|---|---|---|
"""
p = os.path.join(ROOT, "DESIGN.md")
s = open(p).read()
i = s.index("## 13. Per-property coverage as built")
m = re.search(r"\n## 1[4-9]\. ", s[i:])
tail = s[i + m.start():] if m else "\n"
open(p, "w").write(s[:i] + head + "\n".join(rows) + "\n" + tail)
print("section 13 regenerated: %d rows" % len(rows))
