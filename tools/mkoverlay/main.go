// mkoverlay generates a `go build -overlay` file from the current working
// tree of the repository. It copies selected source files with nothing
// changed but the path of selected import specs (e.g. "net" becomes
// net "verif.local/shim/vnet"), so edited repository code is what gets
// compiled. One optional constant re-valuation (tssCap) serves the
// small-capacity runs of C07.
package main

import (
	"encoding/json"
	"flag"
	"fmt"
	"go/parser"
	"go/token"
	"os"
	"path/filepath"
	"regexp"
	"sort"
	"strconv"
	"strings"
)

type rule struct {
	glob    string            // relative to the repository root
	imports map[string]string // original import path -> shim import path
}

const (
	vnet    = "verif.local/shim/vnet"
	vunix   = "verif.local/shim/vunix"
	vsync   = "verif.local/shim/vsync"
	vatomic = "verif.local/shim/vatomic"
	vtls    = "verif.local/shim/vtls"
)

var world = []rule{
	{"core/client/*.go", map[string]string{"net": vnet}},
	{"core/server/*.go", map[string]string{"net": vnet}},
	{"net/udp/*.go", map[string]string{"net": vnet, "golang.org/x/sys/unix": vunix}},
	{"net/ntske/ntske_ip.go", map[string]string{"crypto/tls": vtls}},
}

var sched = []rule{
	{"core/server/server.go", map[string]string{"sync": vsync}},
	{"net/ntske/provider.go", map[string]string{"sync": vsync}},
	{"core/client/client.go", map[string]string{"sync/atomic": vatomic}},
}

func main() {
	repo := flag.String("repo", "/repo", "repository root")
	kind := flag.String("kind", "world", "world|sched")
	out := flag.String("out", "", "output directory")
	extra := flag.String("extra", "", "tsscap=<n>")
	flag.Parse()
	var rules []rule
	switch *kind {
	case "world":
		rules = world
	case "sched":
		rules = append(append([]rule{}, world...), sched...)
	default:
		fmt.Fprintln(os.Stderr, "unknown kind", *kind)
		os.Exit(2)
	}
	// merge rules per file
	perFile := map[string]map[string]string{}
	for _, r := range rules {
		ms, _ := filepath.Glob(filepath.Join(*repo, r.glob))
		for _, m := range ms {
			if strings.HasSuffix(m, "_test.go") {
				continue
			}
			if perFile[m] == nil {
				perFile[m] = map[string]string{}
			}
			for k, v := range r.imports {
				perFile[m][k] = v
			}
		}
	}
	// stale outputs must not survive
	old, _ := filepath.Glob(filepath.Join(*out, "*.go"))
	for _, o := range old {
		os.Remove(o)
	}
	replace := map[string]string{}
	var files []string
	for f := range perFile {
		files = append(files, f)
	}
	sort.Strings(files)
	for _, f := range files {
		src, err := os.ReadFile(f)
		if err != nil {
			fatal(err)
		}
		dst, changed, err := rewrite(f, src, perFile[f])
		if err != nil {
			fatal(err)
		}
		if strings.HasPrefix(*extra, "tsscap=") && strings.HasSuffix(f, "core/server/server.go") {
			n, err := strconv.Atoi(strings.TrimPrefix(*extra, "tsscap="))
			if err != nil {
				fatal(err)
			}
			re := regexp.MustCompile(`(?m)^(\s*tssCap\s*=\s*)[^\n]*$`)
			if !re.Match(dst) {
				fatal(fmt.Errorf("tssCap constant not found in %s", f))
			}
			dst = re.ReplaceAll(dst, []byte("${1}"+strconv.Itoa(n)))
			changed = true
		}
		if !changed {
			continue
		}
		rel, _ := filepath.Rel(*repo, f)
		o := filepath.Join(*out, strings.ReplaceAll(rel, "/", "__"))
		if err := os.WriteFile(o, dst, 0o644); err != nil {
			fatal(err)
		}
		replace[f] = o
	}
	b, _ := json.MarshalIndent(map[string]any{"Replace": replace}, "", " ")
	if err := os.WriteFile(filepath.Join(*out, "overlay.json"), b, 0o644); err != nil {
		fatal(err)
	}
}

func fatal(err error) {
	fmt.Fprintln(os.Stderr, "mkoverlay:", err)
	os.Exit(1)
}

// rewrite replaces the path literal of matching import specs, giving the
// import the base name of the original path so that every use keeps compiling.
func rewrite(name string, src []byte, imports map[string]string) ([]byte, bool, error) {
	fset := token.NewFileSet()
	f, err := parser.ParseFile(fset, name, src, parser.ImportsOnly)
	if err != nil {
		return nil, false, err
	}
	type edit struct {
		from, to int
		text     string
	}
	var edits []edit
	for _, is := range f.Imports {
		p, _ := strconv.Unquote(is.Path.Value)
		np, ok := imports[p]
		if !ok {
			continue
		}
		from := fset.Position(is.Path.Pos()).Offset
		to := fset.Position(is.Path.End()).Offset
		text := strconv.Quote(np)
		if is.Name == nil {
			base := p[strings.LastIndex(p, "/")+1:]
			text = base + " " + text
		}
		edits = append(edits, edit{from, to, text})
	}
	if len(edits) == 0 {
		return src, false, nil
	}
	sort.Slice(edits, func(i, j int) bool { return edits[i].from > edits[j].from })
	dst := append([]byte{}, src...)
	for _, e := range edits {
		dst = append(dst[:e.from], append([]byte(e.text), dst[e.to:]...)...)
	}
	return dst, true, nil
}
