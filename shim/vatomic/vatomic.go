// Package vatomic stands in for sync/atomic in core/client/client.go: the
// compare-and-swap of the in-progress guard is a scheduling point.
package vatomic

import (
	orig "sync/atomic"

	"verif.local/sched"
)

func CompareAndSwapUint32(addr *uint32, old, new uint32) bool {
	sched.Point("cas", nil)
	return orig.CompareAndSwapUint32(addr, old, new)
}
