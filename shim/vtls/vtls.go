// Package vtls stands in for crypto/tls in net/ntske/ntske_ip.go: dialling
// goes to an in-memory stream served by whatever the harness registered, and
// a real TLS 1.3 client handshake runs over it.
package vtls

import (
	"context"
	orig "crypto/tls"
	"errors"
	"net"
	"strconv"

	"verif.local/shim/vnet"
)

// DialWithDialer mirrors tls.DialWithDialer over the virtual network.
func DialWithDialer(dialer *net.Dialer, network, addr string, config *orig.Config) (*orig.Conn, error) {
	n := vnet.Current()
	if n == nil || n.OnDial == nil {
		return nil, &net.OpError{Op: "dial", Net: network, Err: errors.New("connection refused")}
	}
	host, port, err := net.SplitHostPort(addr)
	if err != nil {
		return nil, err
	}
	p, _ := strconv.Atoi(port)
	ip := net.ParseIP(host)
	if ip == nil {
		ip = net.IPv4(10, 0, 0, 1) // name resolution: every name maps to the test server
	}
	n.Dials++
	c, s := n.NewStreamPair(&net.TCPAddr{IP: net.IPv4(10, 0, 0, 2), Port: 50000 + n.Dials}, &net.TCPAddr{IP: ip, Port: p})
	if err := n.OnDial(addr, s); err != nil {
		return nil, &net.OpError{Op: "dial", Net: network, Err: err}
	}
	cfg := config
	if cfg == nil {
		cfg = &orig.Config{}
	}
	if cfg.ServerName == "" {
		cfg = cfg.Clone()
		cfg.ServerName = host
	}
	conn := orig.Client(c, cfg)
	ctx := context.Background()
	if dialer != nil && dialer.Timeout != 0 {
		var cancel context.CancelFunc
		ctx, cancel = context.WithTimeout(ctx, dialer.Timeout)
		defer cancel()
	}
	if err := conn.HandshakeContext(ctx); err != nil {
		c.Close()
		return nil, err
	}
	return conn, nil
}
