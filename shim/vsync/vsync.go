// Package vsync stands in for package sync in the repository files that own
// a mutex on an explored path: Lock is a scheduling point of the cooperative
// scheduler (package sched). Without an installed scheduler, or on goroutines
// that are not scheduled threads, it behaves like sync.Mutex.
package vsync

import (
	orig "sync"
	"sync/atomic"

	"verif.local/sched"
)

// Mutex replaces sync.Mutex.
type Mutex struct {
	real   orig.Mutex
	held   bool // held by a scheduled thread
	viaSch bool
}

func (m *Mutex) Held() bool { return m.held }

// TryLockSeen is set by any TryLock call. Code that never calls TryLock cannot
// observe a held mutex, so a lock-to-lock step is atomic for it and Lock is the
// only scheduling point needed. Once the code under test uses TryLock that
// argument is gone: a harness that finds TryLockSeen set after its sequential
// reference runs turns UnlockPoints on, which makes every Unlock of a scheduled
// thread a scheduling point too (the thread can be preempted while it holds the
// mutex, so that another thread's TryLock fails).
var (
	TryLockSeen  atomic.Bool
	UnlockPoints bool
)

// Adapt enables Unlock scheduling points if the code under test uses TryLock.
func Adapt() bool {
	UnlockPoints = TryLockSeen.Load()
	return UnlockPoints
}

func (m *Mutex) Lock() {
	if sched.Point("lock", m) {
		// released by the explorer only while the mutex is free
		if m.held {
			panic("vsync: scheduler released a thread onto a held mutex")
		}
		m.held = true
		m.viaSch = true
		return
	}
	m.real.Lock()
}

func (m *Mutex) Unlock() {
	if m.viaSch && m.held {
		if UnlockPoints {
			sched.Point("unlock", m)
		}
		m.held = false
		m.viaSch = false
		return
	}
	m.real.Unlock()
}

func (m *Mutex) TryLock() bool {
	TryLockSeen.Store(true)
	if sched.Point("trylock", m) {
		// always enabled; the outcome depends on where the explorer placed it
		if m.held {
			return false
		}
		m.held = true
		m.viaSch = true
		return true
	}
	return m.real.TryLock()
}

// OnceFunc, OnceValue and OnceValues are generic and therefore not forwarded
// by the generator.
func OnceFunc(f func()) func()                                 { return orig.OnceFunc(f) }
func OnceValue[T any](f func() T) func() T                     { return orig.OnceValue(f) }
func OnceValues[T1, T2 any](f func() (T1, T2)) func() (T1, T2) { return orig.OnceValues(f) }
