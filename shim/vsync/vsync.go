// Package vsync stands in for package sync in the repository files that own
// a mutex on an explored path: Lock is a scheduling point of the cooperative
// scheduler (package sched). Without an installed scheduler, or on goroutines
// that are not scheduled threads, it behaves like sync.Mutex.
package vsync

import (
	orig "sync"

	"verif.local/sched"
)

// Mutex replaces sync.Mutex.
type Mutex struct {
	real   orig.Mutex
	held   bool // held by a scheduled thread
	viaSch bool
}

func (m *Mutex) Held() bool { return m.held }

func (m *Mutex) Lock() {
	if sched.Point("lock", m) {
		// released by the explorer only while the mutex is free
		if m.held {
			panic("vsync: scheduler released a thread onto a held mutex")
		}
		m.held = true
		m.viaSch = true
		return
	}
	m.real.Lock()
}

func (m *Mutex) Unlock() {
	if m.viaSch && m.held {
		m.held = false
		m.viaSch = false
		return
	}
	m.real.Unlock()
}

func (m *Mutex) TryLock() bool {
	if sched.Active() {
		if m.held {
			return false
		}
	}
	return m.real.TryLock()
}

// OnceFunc, OnceValue and OnceValues are generic and therefore not forwarded
// by the generator.
func OnceFunc(f func()) func()                                 { return orig.OnceFunc(f) }
func OnceValue[T any](f func() T) func() T                     { return orig.OnceValue(f) }
func OnceValues[T1, T2 any](f func() (T1, T2)) func() (T1, T2) { return orig.OnceValues(f) }
