package vnet

import (
	"encoding/binary"
	"syscall"
	"time"
)

const (
	soTimestampingNew = 65 // SO_TIMESTAMPING_NEW == SCM_TIMESTAMPING_NEW
	cmsgHdrLen        = 16
)

func cmsgAlign(n int) int { return (n + 7) &^ 7 }

// Cmsg builds one control message exactly as the Linux kernel lays it out on
// amd64 (cmsg_len counts header plus data, the next header is 8-byte aligned).
func Cmsg(level, typ int32, data []byte) []byte {
	b := make([]byte, cmsgHdrLen+cmsgAlign(len(data)))
	binary.LittleEndian.PutUint64(b[0:], uint64(cmsgHdrLen+len(data)))
	binary.LittleEndian.PutUint32(b[8:], uint32(level))
	binary.LittleEndian.PutUint32(b[12:], uint32(typ))
	copy(b[cmsgHdrLen:], data)
	return b
}

// TimestampingCmsg builds the SCM_TIMESTAMPING_NEW message carrying ts in the
// software slot.
func TimestampingCmsg(ts time.Time) []byte {
	data := make([]byte, 48)
	binary.LittleEndian.PutUint64(data[0:], uint64(ts.Unix()))
	binary.LittleEndian.PutUint64(data[8:], uint64(ts.Nanosecond()))
	return Cmsg(syscall.SOL_SOCKET, soTimestampingNew, data)
}

// TimestampingCmsgSlots builds the message with explicit slot contents.
func TimestampingCmsgSlots(slots [6]int64) []byte {
	data := make([]byte, 48)
	for i, v := range slots {
		binary.LittleEndian.PutUint64(data[8*i:], uint64(v))
	}
	return Cmsg(syscall.SOL_SOCKET, soTimestampingNew, data)
}

// RecvErrCmsg builds the IP_RECVERR / IPV6_RECVERR message the kernel queues
// for a TX timestamp: sock_extended_err{ENOMSG, SO_EE_ORIGIN_TIMESTAMPING,
// data=id} followed by an empty offender address.
func RecvErrCmsg(v6 bool, id uint32) []byte {
	data := make([]byte, 32)
	binary.LittleEndian.PutUint32(data[0:], uint32(syscall.ENOMSG))
	data[4] = 4 // SO_EE_ORIGIN_TIMESTAMPING
	binary.LittleEndian.PutUint32(data[8:], 0)
	binary.LittleEndian.PutUint32(data[12:], id) // ee_data
	if v6 {
		return Cmsg(syscall.SOL_IPV6, 25 /* IPV6_RECVERR */, data)
	}
	return Cmsg(syscall.SOL_IP, 11 /* IP_RECVERR */, data)
}
