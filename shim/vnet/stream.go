package vnet

import (
	"io"
	orig "net"
	"runtime"
	"sync"
	"time"
)

// half is one direction of an in-memory byte stream, buffered like a socket.
type half struct {
	mu     sync.Mutex
	buf    []byte
	closed bool
	wake   chan struct{}
	total  int
}

func newHalf() *half { return &half{wake: make(chan struct{}, 1)} }

func (h *half) signal() {
	select {
	case h.wake <- struct{}{}:
	default:
	}
}

// StreamConn is one end of an in-memory TCP-like connection.
type StreamConn struct {
	net          *Net
	rd, wr       *half
	laddr, raddr *orig.TCPAddr
	dlMu         sync.Mutex
	deadline     time.Time
	// ReadLimit, if set, bounds the bytes returned by the next Read
	// (stream segmentation is a harness decision). 0 or less = no limit.
	ReadLimit   func() int
	closedLocal bool
}

var _ orig.Conn = (*StreamConn)(nil)

// NewStreamPair returns the two ends of a connection.
func (n *Net) NewStreamPair(a, b *orig.TCPAddr) (*StreamConn, *StreamConn) {
	x, y := newHalf(), newHalf()
	return &StreamConn{net: n, rd: x, wr: y, laddr: a, raddr: b}, &StreamConn{net: n, rd: y, wr: x, laddr: b, raddr: a}
}

func (c *StreamConn) Read(p []byte) (int, error) {
	if len(p) == 0 {
		return 0, nil
	}
	for {
		c.rd.mu.Lock()
		if len(c.rd.buf) > 0 {
			n := len(p)
			if c.ReadLimit != nil {
				if l := c.ReadLimit(); l > 0 && l < n {
					n = l
				}
			}
			n = copy(p[:n], c.rd.buf)
			c.rd.buf = c.rd.buf[n:]
			c.rd.mu.Unlock()
			return n, nil
		}
		closed := c.rd.closed
		c.rd.mu.Unlock()
		if closed {
			return 0, io.EOF
		}
		c.dlMu.Lock()
		dl := c.deadline
		c.dlMu.Unlock()
		var timer <-chan time.Time
		if !dl.IsZero() {
			d := time.Until(dl)
			if d <= 0 {
				return 0, &orig.OpError{Op: "read", Net: "tcp", Err: timeoutError{}}
			}
			t := time.NewTimer(d)
			defer t.Stop()
			timer = t.C
		}
		select {
		case <-c.rd.wake:
		case <-timer:
			return 0, &orig.OpError{Op: "read", Net: "tcp", Err: timeoutError{}}
		case <-c.net.Done:
			runtime.Goexit()
		}
	}
}

func (c *StreamConn) Write(p []byte) (int, error) {
	c.wr.mu.Lock()
	defer c.wr.mu.Unlock()
	if c.wr.closed || c.closedLocal {
		return 0, &orig.OpError{Op: "write", Net: "tcp", Err: orig.ErrClosed}
	}
	c.wr.buf = append(c.wr.buf, p...)
	c.wr.total += len(p)
	c.wr.signal()
	return len(p), nil
}

// Close closes both directions (the peer reads EOF after draining).
func (c *StreamConn) Close() error {
	c.wr.mu.Lock()
	c.wr.closed = true
	c.closedLocal = true
	c.wr.signal()
	c.wr.mu.Unlock()
	c.rd.mu.Lock()
	c.rd.closed = true
	c.rd.signal()
	c.rd.mu.Unlock()
	return nil
}

// Written returns the total number of bytes written by this end.
func (c *StreamConn) Written() int {
	c.wr.mu.Lock()
	defer c.wr.mu.Unlock()
	return c.wr.total
}

// IsClosed reports whether this end called Close.
func (c *StreamConn) IsClosed() bool {
	c.wr.mu.Lock()
	defer c.wr.mu.Unlock()
	return c.closedLocal
}

func (c *StreamConn) LocalAddr() orig.Addr  { return c.laddr }
func (c *StreamConn) RemoteAddr() orig.Addr { return c.raddr }
func (c *StreamConn) SetDeadline(t time.Time) error {
	c.dlMu.Lock()
	c.deadline = t
	c.dlMu.Unlock()
	c.rd.signal()
	return nil
}
func (c *StreamConn) SetReadDeadline(t time.Time) error  { return c.SetDeadline(t) }
func (c *StreamConn) SetWriteDeadline(t time.Time) error { return nil }
