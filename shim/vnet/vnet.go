// Package vnet stands in for package net in the repository files listed in
// tools/mkoverlay: an in-memory UDP network whose every delivery is decided
// by the harness. Everything not defined here is forwarded to package net by
// the generated zz_forward.go.
package vnet

import (
	"context"
	"errors"
	orig "net"
	"net/netip"
	"os"
	"runtime"
	"sync"
	"sync/atomic"
	"syscall"
	"time"
)

// FDBase is the first virtual file descriptor.
const FDBase = 1 << 20

// Datagram is one UDP datagram in flight or delivered.
type Datagram struct {
	From, To netip.AddrPort
	Data     []byte
	Seq      int
	RxTime   time.Time // kernel receive timestamp to synthesise; zero = none
	Sock     *UDPConn  // sending socket (nil for harness-made datagrams)
	Tag      string
}

// TxStamp is the kernel transmit timestamp the error queue will hold for one send.
type TxStamp struct {
	TS   time.Time
	ID   uint32
	None bool // no entry in the error queue
	Both bool // malformed: all three timestamp slots set (never produced by default)
}

// Net is the network of one execution.
type Net struct {
	mu       sync.Mutex
	Done     chan struct{}
	Socks    []*UDPConn
	open     []*UDPConn
	Sent     []*Datagram
	NextPort uint16
	// StickyPort: every bind to port 0 gets the port NextPort names and NextPort
	// stays as it is (the system hands out the same ephemeral port again and again)
	StickyPort bool
	// OnSend is called synchronously by the sending goroutine after the
	// datagram was logged; its result decides the TX timestamp (nil = default:
	// present, now, correct id).
	OnSend func(c *UDPConn, d *Datagram) *TxStamp
	// Now supplies the clock for default TX timestamps.
	Now func() time.Time
	// ListenErr, if set, decides failures of ListenPacket.
	ListenErr func(addr string) error
	// OnDial is consulted by vtls.DialWithDialer: it receives the server end
	// of a fresh stream and starts whatever serves it (nil or an error =
	// connection refused).
	OnDial func(hostport string, server *StreamConn) error
	Dials  int
	// PollBlocks, when it returns true for a socket, makes a poll of that socket's
	// error queue that finds nothing wait for its timeout (in bubble time), as the
	// real poll(2) does.
	PollBlocks func(c *UDPConn) bool
}

var cur atomic.Pointer[Net]

// Install makes n the network seen by the code under test.
func Install(n *Net) { cur.Store(n) }

// Current returns the installed network.
func Current() *Net { return cur.Load() }

// New returns an empty network.
func New() *Net {
	return &Net{Done: make(chan struct{}), NextPort: 40000}
}

// Shutdown ends every goroutine blocked in a read.
func (n *Net) Shutdown() {
	select {
	case <-n.Done:
	default:
		close(n.Done)
	}
}

// Sock returns the socket with the given virtual fd.
func (n *Net) Sock(fd int) *UDPConn {
	n.mu.Lock()
	defer n.mu.Unlock()
	i := fd - FDBase
	if i < 0 || i >= len(n.Socks) {
		return nil
	}
	return n.Socks[i]
}

// Bound returns the open sockets bound to ap, in creation order.
func (n *Net) Bound(ap netip.AddrPort) []*UDPConn {
	n.mu.Lock()
	defer n.mu.Unlock()
	var r []*UDPConn
	for _, s := range n.open {
		if !s.closed.Load() && s.laddr == ap {
			r = append(r, s)
		}
	}
	return r
}

// SentSince returns the datagrams logged at or after index i.
func (n *Net) SentSince(i int) []*Datagram {
	n.mu.Lock()
	defer n.mu.Unlock()
	return append([]*Datagram{}, n.Sent[i:]...)
}

// NumSent returns the number of datagrams written so far.
func (n *Net) NumSent() int {
	n.mu.Lock()
	defer n.mu.Unlock()
	return len(n.Sent)
}

// UDPConn replaces net.UDPConn.
type UDPConn struct {
	net      *Net
	FD       int
	laddr    netip.AddrPort
	rxq      chan *Datagram
	closed   atomic.Bool
	Reading  atomic.Bool
	dlMu     sync.Mutex
	deadline time.Time
	errq     []TxStamp
	txSeq    uint32
	Opts     map[[2]int]int
	// Reads counts completed reads (datagrams handed to the code under test).
	Reads atomic.Int64
}

var _ orig.PacketConn = (*UDPConn)(nil)

// ListenConfig replaces net.ListenConfig.
type ListenConfig struct {
	Control   func(network, address string, c syscall.RawConn) error
	KeepAlive time.Duration
}

// ListenPacket opens a virtual UDP socket.
func (lc *ListenConfig) ListenPacket(ctx context.Context, network, address string) (orig.PacketConn, error) {
	n := Current()
	if n == nil {
		return nil, errors.New("vnet: no network installed")
	}
	if n.ListenErr != nil {
		if err := n.ListenErr(address); err != nil {
			return nil, err
		}
	}
	ap, err := netip.ParseAddrPort(address)
	if err != nil {
		return nil, &orig.OpError{Op: "listen", Net: network, Err: err}
	}
	ap = netip.AddrPortFrom(ap.Addr().Unmap(), ap.Port())
	n.mu.Lock()
	if ap.Port() == 0 {
		ap = netip.AddrPortFrom(ap.Addr(), n.NextPort)
		if !n.StickyPort {
			n.NextPort++
		}
	}
	c := &UDPConn{net: n, FD: FDBase + len(n.Socks), laddr: ap, rxq: make(chan *Datagram, 1024), Opts: map[[2]int]int{}}
	n.Socks = append(n.Socks, c)
	n.open = append(n.open, c)
	n.mu.Unlock()
	if lc.Control != nil {
		if err := lc.Control(network, address, rawConn{c}); err != nil {
			c.Close()
			return nil, err
		}
	}
	return c, nil
}

// Deliver queues d for this socket (the harness then waits for quiescence).
func (c *UDPConn) Deliver(d *Datagram) {
	select {
	case c.rxq <- d:
	default:
		panic("vnet: receive queue overflow")
	}
}

// Pending returns the number of queued, unread datagrams.
func (c *UDPConn) Pending() int { return len(c.rxq) }

// Local returns the bound address.
func (c *UDPConn) Local() netip.AddrPort { return c.laddr }

// Closed reports whether Close was called.
func (c *UDPConn) Closed() bool { return c.closed.Load() }

type timeoutError struct{}

func (timeoutError) Error() string   { return "i/o timeout" }
func (timeoutError) Timeout() bool   { return true }
func (timeoutError) Temporary() bool { return true }
func (timeoutError) Unwrap() error   { return os.ErrDeadlineExceeded }

func (c *UDPConn) read() (*Datagram, error) {
	if c.closed.Load() {
		// The repository's receive loops retry forever on a closed socket;
		// the shim never reports a persistent error to a loop, it ends the
		// goroutine instead (see DESIGN.md section 10).
		select {
		case <-c.net.Done:
			runtime.Goexit()
		default:
		}
		return nil, &orig.OpError{Op: "read", Net: "udp", Err: orig.ErrClosed}
	}
	c.dlMu.Lock()
	dl := c.deadline
	c.dlMu.Unlock()
	var timer <-chan time.Time
	if !dl.IsZero() {
		d := time.Until(dl)
		if d <= 0 {
			select {
			case dg := <-c.rxq:
				return dg, nil
			default:
			}
			return nil, &orig.OpError{Op: "read", Net: "udp", Err: timeoutError{}}
		}
		t := time.NewTimer(d)
		defer t.Stop()
		timer = t.C
	}
	c.Reading.Store(true)
	defer c.Reading.Store(false)
	select {
	case dg := <-c.rxq:
		return dg, nil
	case <-timer:
		return nil, &orig.OpError{Op: "read", Net: "udp", Err: timeoutError{}}
	case <-c.net.Done:
		runtime.Goexit()
	}
	panic("unreachable")
}

// ReadMsgUDPAddrPort mirrors (*net.UDPConn).ReadMsgUDPAddrPort including
// MSG_TRUNC / MSG_CTRUNC and the SCM_TIMESTAMPING_NEW control message.
func (c *UDPConn) ReadMsgUDPAddrPort(b, oob []byte) (n, oobn, flags int, addr netip.AddrPort, err error) {
	dg, err := c.read()
	if err != nil {
		return 0, 0, 0, netip.AddrPort{}, err
	}
	c.Reads.Add(1)
	n = copy(b, dg.Data)
	if n < len(dg.Data) {
		flags |= syscall.MSG_TRUNC
	}
	if !dg.RxTime.IsZero() && c.Opts[[2]int{syscall.SOL_SOCKET, soTimestampingNew}] != 0 {
		cm := TimestampingCmsg(dg.RxTime)
		if len(oob) >= len(cm) {
			oobn = copy(oob, cm)
		} else {
			flags |= syscall.MSG_CTRUNC
		}
	}
	return n, oobn, flags, dg.From, nil
}

// ReadFrom implements net.PacketConn.
func (c *UDPConn) ReadFrom(b []byte) (int, orig.Addr, error) {
	dg, err := c.read()
	if err != nil {
		return 0, nil, err
	}
	c.Reads.Add(1)
	n := copy(b, dg.Data)
	return n, orig.UDPAddrFromAddrPort(dg.From), nil
}

// WriteToUDPAddrPort logs the datagram and consults the harness.
func (c *UDPConn) WriteToUDPAddrPort(b []byte, addr netip.AddrPort) (int, error) {
	if c.closed.Load() {
		return 0, &orig.OpError{Op: "write", Net: "udp", Err: orig.ErrClosed}
	}
	n := c.net
	n.mu.Lock()
	d := &Datagram{From: c.laddr, To: netip.AddrPortFrom(addr.Addr().Unmap(), addr.Port()), Data: append([]byte{}, b...), Seq: len(n.Sent), Sock: c}
	n.Sent = append(n.Sent, d)
	hook := n.OnSend
	now := n.Now
	n.mu.Unlock()
	var st *TxStamp
	if hook != nil {
		st = hook(c, d)
	}
	if st == nil {
		st = &TxStamp{ID: c.txSeq}
		if now != nil {
			st.TS = now()
		} else {
			st.TS = time.Now()
		}
	}
	c.txSeq++
	if !st.None && c.Opts[[2]int{syscall.SOL_SOCKET, soTimestampingNew}] != 0 {
		c.errq = append(c.errq, *st)
	}
	return len(b), nil
}

// WriteTo implements net.PacketConn.
func (c *UDPConn) WriteTo(b []byte, addr orig.Addr) (int, error) {
	ua, ok := addr.(*orig.UDPAddr)
	if !ok {
		return 0, errors.New("vnet: unsupported address type")
	}
	return c.WriteToUDPAddrPort(b, ua.AddrPort())
}

// PopErrQueue removes and returns the oldest error-queue entry.
func (c *UDPConn) PopErrQueue() (TxStamp, bool) {
	if len(c.errq) == 0 {
		return TxStamp{}, false
	}
	s := c.errq[0]
	c.errq = c.errq[1:]
	return s, true
}

// QueueErr appends an entry to the socket's error queue (a transmit timestamp
// that the kernel delivers late).
func (c *UDPConn) QueueErr(st TxStamp) { c.errq = append(c.errq, st) }

// ErrQueueLen returns the number of unread TX timestamps.
func (c *UDPConn) ErrQueueLen() int { return len(c.errq) }

// Close is idempotent.
func (c *UDPConn) Close() error {
	if c.closed.Swap(true) {
		return nil
	}
	n := c.net
	n.mu.Lock()
	for i, o := range n.open {
		if o == c {
			n.open = append(n.open[:i:i], n.open[i+1:]...)
			break
		}
	}
	n.mu.Unlock()
	return nil
}

// Open returns the sockets that are not closed, in creation order.
func (n *Net) Open() []*UDPConn {
	n.mu.Lock()
	defer n.mu.Unlock()
	return append([]*UDPConn{}, n.open...)
}

// LocalAddr returns a *net.UDPAddr like the real connection.
func (c *UDPConn) LocalAddr() orig.Addr { return orig.UDPAddrFromAddrPort(c.laddr) }

func (c *UDPConn) SetDeadline(t time.Time) error {
	c.dlMu.Lock()
	c.deadline = t
	c.dlMu.Unlock()
	return nil
}
func (c *UDPConn) SetReadDeadline(t time.Time) error  { return c.SetDeadline(t) }
func (c *UDPConn) SetWriteDeadline(t time.Time) error { return nil }

// SyscallConn hands out the virtual descriptor.
func (c *UDPConn) SyscallConn() (syscall.RawConn, error) { return rawConn{c}, nil }

type rawConn struct{ c *UDPConn }

func (r rawConn) Control(f func(fd uintptr)) error { f(uintptr(r.c.FD)); return nil }
func (r rawConn) Read(f func(fd uintptr) bool) error {
	for !f(uintptr(r.c.FD)) {
	}
	return nil
}
func (r rawConn) Write(f func(fd uintptr) bool) error {
	for !f(uintptr(r.c.FD)) {
	}
	return nil
}
