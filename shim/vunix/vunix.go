// Package vunix stands in for golang.org/x/sys/unix in net/udp: socket
// options, Poll and Recvmsg on the virtual descriptors handed out by vnet are
// answered from the in-memory network; everything else is the real package.
package vunix

import (
	"time"

	orig "golang.org/x/sys/unix"

	"verif.local/shim/vnet"
)

func sock(fd int) *vnet.UDPConn {
	if fd < vnet.FDBase {
		return nil
	}
	n := vnet.Current()
	if n == nil {
		return nil
	}
	return n.Sock(fd)
}

// SetsockoptErr, if set, injects a failure for (fd, level, opt).
var SetsockoptErr func(fd, level, opt, value int) error

func SetsockoptInt(fd, level, opt int, value int) error {
	s := sock(fd)
	if s == nil {
		return orig.SetsockoptInt(fd, level, opt, value)
	}
	if SetsockoptErr != nil {
		if err := SetsockoptErr(fd, level, opt, value); err != nil {
			return err
		}
	}
	s.Opts[[2]int{level, opt}] = value
	return nil
}

func Poll(fds []orig.PollFd, timeout int) (int, error) {
	if len(fds) == 0 || sock(int(fds[0].Fd)) == nil {
		return orig.Poll(fds, timeout)
	}
	scan := func() int {
		n := 0
		for i := range fds {
			s := sock(int(fds[i].Fd))
			fds[i].Revents = 0
			if s != nil && s.ErrQueueLen() > 0 {
				fds[i].Revents = orig.POLLPRI | orig.POLLERR
				n++
			}
		}
		return n
	}
	n := scan()
	if pb := vnet.Current().PollBlocks; n == 0 && timeout > 0 && pb != nil && pb(sock(int(fds[0].Fd))) {
		time.Sleep(time.Duration(timeout) * time.Millisecond)
		n = scan()
	}
	return n, nil
}

func Recvmsg(fd int, p, oob []byte, flags int) (n, oobn int, recvflags int, from orig.Sockaddr, err error) {
	s := sock(fd)
	if s == nil {
		return orig.Recvmsg(fd, p, oob, flags)
	}
	if flags&orig.MSG_ERRQUEUE == 0 {
		return 0, 0, 0, nil, orig.EINVAL
	}
	st, ok := s.PopErrQueue()
	if !ok {
		return 0, 0, 0, nil, orig.EAGAIN
	}
	var cm []byte
	if st.Both {
		cm = vnet.TimestampingCmsgSlots([6]int64{st.TS.Unix(), int64(st.TS.Nanosecond()), 0, 0, st.TS.Unix(), int64(st.TS.Nanosecond())})
	} else {
		cm = vnet.TimestampingCmsg(st.TS)
	}
	cm = append(cm, vnet.RecvErrCmsg(s.Local().Addr().Is6(), st.ID)...)
	recvflags = orig.MSG_ERRQUEUE
	if len(oob) < len(cm) {
		recvflags |= orig.MSG_CTRUNC
		cm = cm[:0]
	}
	oobn = copy(oob, cm)
	return 0, oobn, recvflags, nil, nil
}
