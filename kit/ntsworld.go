package kit

import (
	"context"
	"crypto/tls"
	"net/netip"

	"example.com/scion-time/core/server"
	"example.com/scion-time/net/ntske"

	"verif.local/shim/vnet"
	"verif.local/world"
)

// NTSWorld is a complete NTS deployment inside one bubble: key provider, the
// repository's key-exchange handler reachable through vtls, and the
// repository's IP listener on 10.0.0.1:123.
type NTSWorld struct {
	W        *world.World
	Provider *ntske.Provider
	SrvAddr  netip.AddrPort
	SrvSock  *vnet.UDPConn
	KEConns  int
	// NTPPort is the port the key-exchange handler names for NTP (123 for the IP listener).
	NTPPort int
}

// NewNTSWorld starts the listener and installs the dial hook.
func NewNTSWorld(w *world.World) *NTSWorld {
	n := &NTSWorld{W: w, Provider: ntske.NewProvider(), SrvAddr: netip.MustParseAddrPort("10.0.0.1:123")}
	w.Net.OnDial = func(hostport string, sconn *vnet.StreamConn) error {
		n.KEConns++
		w.Go("ntske-server", func() {
			tc := tls.Server(sconn, ServerTLS("ntske/1"))
			if err := tc.Handshake(); err != nil {
				return
			}
			port := n.NTPPort
			if port == 0 {
				port = 123
			}
			server.VerifHandleKeyExchangeTLS(context.Background(), w.Log, tc, port, n.Provider)
		})
		return nil
	}
	n.StartListener()
	return n
}

// StartListener (re)starts the IP listener on a fresh socket.
func (n *NTSWorld) StartListener() {
	lc := vnet.ListenConfig{}
	pc, err := lc.ListenPacket(context.Background(), "udp", n.SrvAddr.String())
	if err != nil {
		panic(err)
	}
	n.SrvSock = pc.(*vnet.UDPConn)
	world.FreshRegistry()
	sock := n.SrvSock
	n.W.Go("ipserver", func() { server.VerifRunIPServer(context.Background(), n.W.Log, sock, "", 0, n.Provider) })
	n.W.Settle()
}

// NewFetcher returns a fetcher configured for the test key-exchange server.
func NewFetcher(w *world.World) ntske.Fetcher {
	return ntske.Fetcher{Log: w.Log, TLSConfig: ClientTLS(), Port: "4460"}
}

// ToServer delivers a datagram to the listener and returns what it wrote.
func (n *NTSWorld) ToServer(d *vnet.Datagram) []*vnet.Datagram {
	before := n.W.Net.NumSent()
	rd := *d
	rd.RxTime = n.W.Clock.Peek()
	n.SrvSock.Deliver(&rd)
	n.W.Settle()
	return n.W.Net.SentSince(before)
}
