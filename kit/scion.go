package kit

import (
	"context"
	"crypto/sha256"
	"fmt"
	"net"
	"net/netip"
	"time"

	"github.com/google/gopacket"
	"github.com/scionproto/scion/pkg/addr"
	"github.com/scionproto/scion/pkg/daemon"
	"github.com/scionproto/scion/pkg/drkey"
	"github.com/scionproto/scion/pkg/drkey/generic"
	"github.com/scionproto/scion/pkg/scrypto/cppki"
	"github.com/scionproto/scion/pkg/segment/iface"
	"github.com/scionproto/scion/pkg/slayers"
	"github.com/scionproto/scion/pkg/slayers/path"
	"github.com/scionproto/scion/pkg/slayers/path/empty"
	"github.com/scionproto/scion/pkg/slayers/path/onehop"
	spscion "github.com/scionproto/scion/pkg/slayers/path/scion"
	"github.com/scionproto/scion/pkg/snet"
	snetpath "github.com/scionproto/scion/pkg/snet/path"
	"github.com/scionproto/scion/pkg/spao"

	"example.com/scion-time/net/scion"

	"verif.local/shim/vnet"
)

// PathSpec describes a SCION data-plane path.
type PathSpec struct {
	Kind    string // "empty", "onehop", "onehop-half" (second hop empty), "scion"
	Segs    []int  // hops per segment (scion)
	CurrINF int
	CurrHF  int
	ID      int // distinguishes paths of equal shape (interface ids, MACs)
}

func (p PathSpec) String() string {
	return fmt.Sprintf("%s%v@%d/%d#%d", p.Kind, p.Segs, p.CurrINF, p.CurrHF, p.ID)
}

// Build returns the slayers path object.
func (p PathSpec) Build() (path.Path, path.Type) {
	switch p.Kind {
	case "empty":
		return empty.Path{}, empty.PathType
	case "onehop", "onehop-half":
		o := &onehop.Path{
			Info:     path.InfoField{ConsDir: true, SegID: uint16(0x1111 + p.ID), Timestamp: 1_700_000_000},
			FirstHop: path.HopField{ExpTime: 63, ConsIngress: 0, ConsEgress: uint16(11 + p.ID), Mac: [6]byte{1, 2, 3, 4, 5, byte(p.ID)}},
		}
		if p.Kind == "onehop" {
			o.SecondHop = path.HopField{ExpTime: 63, ConsIngress: uint16(21 + p.ID), ConsEgress: 0, Mac: [6]byte{6, 5, 4, 3, 2, byte(p.ID)}}
		}
		return o, onehop.PathType
	case "scion":
		d := &spscion.Decoded{}
		d.PathMeta.CurrINF = uint8(p.CurrINF)
		d.PathMeta.CurrHF = uint8(p.CurrHF)
		hop := 0
		for i, n := range p.Segs {
			d.PathMeta.SegLen[i] = uint8(n)
			d.InfoFields = append(d.InfoFields, path.InfoField{ConsDir: i%2 == 0, SegID: uint16(0x100*(i+1) + p.ID), Timestamp: uint32(1_700_000_000 + i)})
			for k := 0; k < n; k++ {
				d.HopFields = append(d.HopFields, path.HopField{ExpTime: 63, ConsIngress: uint16(10*hop + p.ID), ConsEgress: uint16(10*hop + 1 + p.ID), Mac: [6]byte{byte(hop), byte(i), byte(k), 7, 7, byte(p.ID)}})
				hop++
			}
		}
		d.NumINF = len(p.Segs)
		d.NumHops = hop
		return d, spscion.PathType
	}
	panic("unknown path kind " + p.Kind)
}

// Raw serialises the path.
func (p PathSpec) Raw() []byte {
	pp, _ := p.Build()
	b := make([]byte, pp.Len())
	if err := pp.SerializeTo(b); err != nil {
		panic(err)
	}
	return b
}

// Reversed returns the serialised reverse path as the library computes it.
func (p PathSpec) Reversed() ([]byte, path.Type, error) {
	pp, _ := p.Build()
	if d, ok := pp.(*spscion.Decoded); ok {
		// the receiver parses the path in raw form
		raw := &spscion.Raw{}
		b := make([]byte, d.Len())
		if err := d.SerializeTo(b); err != nil {
			return nil, 0, err
		}
		if err := raw.DecodeFromBytes(b); err != nil {
			return nil, 0, err
		}
		pp = raw
	}
	rp, err := pp.Reverse()
	if err != nil {
		return nil, 0, err
	}
	b := make([]byte, rp.Len())
	if err := rp.SerializeTo(b); err != nil {
		return nil, 0, err
	}
	return b, rp.Type(), nil
}

// SnetPath returns the client-side path object for this spec.
func (p PathSpec) SnetPath(src, dst addr.IA, nextHop *net.UDPAddr) snet.Path {
	sp := snetpath.Path{Src: src, Dst: dst, NextHop: nextHop}
	switch p.Kind {
	case "empty":
		sp.DataplanePath = snetpath.Empty{}
	case "onehop", "onehop-half":
		pp, _ := p.Build()
		o := pp.(*onehop.Path)
		sp.DataplanePath = snetpath.OneHop{Info: o.Info, FirstHop: o.FirstHop}
	default:
		sp.DataplanePath = snetpath.SCION{Raw: p.Raw()}
		sp.Meta.Interfaces = []snet.PathInterface{{IA: src, ID: iface.ID(1 + 100*p.ID)}, {IA: dst, ID: iface.ID(2 + 100*p.ID)}}
	}
	return sp
}

// Pkt describes a SCION packet.
type Pkt struct {
	SrcIA, DstIA     addr.IA
	SrcHost, DstHost netip.Addr
	Path             PathSpec
	RawPath          []byte    // overrides Path when set (with PathType)
	PathType         path.Type // used with RawPath
	L4               string    // "udp", "scmp-echo", "scmp-traceroute", "scmp-error", "scmp-unknown", "none"
	SrcPort, DstPort uint16
	Payload          []byte
	E2E              []*slayers.EndToEndOption // nil: no end-to-end extension
	HBH              bool                      // add an (empty) hop-by-hop extension
	TrafficClass     uint8
	// Auth, when set, adds a packet authenticator computed with this key (SPI as given).
	AuthKey []byte
	AuthSPI uint32
	// Front, when set, is placed in front of the (authenticated) L4 header and
	// payload after the authenticator has been computed: raw bytes of another L4
	// header and payload, so that the authenticated bytes trail the datagram.
	Front []byte
}

// Bytes serialises the packet with the SCION library.
func (p *Pkt) Bytes() []byte {
	var sl slayers.SCION
	sl.TrafficClass = p.TrafficClass
	sl.SrcIA, sl.DstIA = p.SrcIA, p.DstIA
	if err := sl.SetSrcAddr(addr.HostIP(p.SrcHost)); err != nil {
		panic(err)
	}
	if err := sl.SetDstAddr(addr.HostIP(p.DstHost)); err != nil {
		panic(err)
	}
	if p.RawPath != nil {
		pp, err := path.NewPath(p.PathType)
		if err != nil {
			panic(err)
		}
		if err := pp.DecodeFromBytes(p.RawPath); err != nil {
			panic(err)
		}
		sl.Path, sl.PathType = pp, p.PathType
	} else {
		sl.Path, sl.PathType = p.Path.Build()
	}
	buffer := gopacket.NewSerializeBuffer()
	opts := gopacket.SerializeOptions{ComputeChecksums: true, FixLengths: true}
	push := func(l gopacket.SerializableLayer) {
		if err := l.SerializeTo(buffer, opts); err != nil {
			panic(err)
		}
		buffer.PushLayer(l.LayerType())
	}
	push(gopacket.Payload(p.Payload))
	var l4 slayers.L4ProtocolType
	switch p.L4 {
	case "udp":
		var u slayers.UDP
		u.SrcPort, u.DstPort = p.SrcPort, p.DstPort
		u.SetNetworkLayerForChecksum(&sl)
		push(&u)
		l4 = slayers.L4UDP
	case "scmp-echo", "scmp-traceroute", "scmp-error", "scmp-unknown":
		var s slayers.SCMP
		switch p.L4 {
		case "scmp-echo":
			s.TypeCode = slayers.CreateSCMPTypeCode(slayers.SCMPTypeEchoRequest, 0)
		case "scmp-traceroute":
			s.TypeCode = slayers.CreateSCMPTypeCode(slayers.SCMPTypeTracerouteRequest, 0)
		case "scmp-error":
			s.TypeCode = slayers.CreateSCMPTypeCode(slayers.SCMPTypeDestinationUnreachable, 0)
		default:
			s.TypeCode = slayers.CreateSCMPTypeCode(200, 3)
		}
		s.SetNetworkLayerForChecksum(&sl)
		push(&s)
		l4 = slayers.L4SCMP
	default:
		l4 = slayers.L4ProtocolType(253)
	}
	sl.NextHdr = l4
	opt := p.E2E
	if p.AuthKey != nil {
		ao := &slayers.EndToEndOption{OptData: make([]byte, scion.PacketAuthOptDataLen)}
		scion.PreparePacketAuthOpt(ao, p.AuthSPI, scion.PacketAuthAlgorithm)
		_, err := spao.ComputeAuthCMAC(spao.MACInput{
			Key: p.AuthKey, Header: slayers.PacketAuthOption{EndToEndOption: ao}, ScionLayer: &sl, PldType: l4, Pld: buffer.Bytes(),
		}, make([]byte, spao.MACBufferSize), scion.PacketAuthOptMAC(ao))
		if err != nil {
			panic(err)
		}
		opt = append(append([]*slayers.EndToEndOption{}, opt...), ao)
	}
	if p.Front != nil {
		fb, err := buffer.PrependBytes(len(p.Front))
		if err != nil {
			panic(err)
		}
		copy(fb, p.Front)
	}
	if opt != nil {
		e := slayers.EndToEndExtn{}
		e.NextHdr = l4
		e.Options = opt
		push(&e)
		sl.NextHdr = slayers.End2EndClass
	}
	if p.HBH {
		h := slayers.HopByHopExtn{}
		h.NextHdr = sl.NextHdr
		push(&h)
		sl.NextHdr = slayers.HopByHopClass
	}
	push(&sl)
	return append([]byte{}, buffer.Bytes()...)
}

// Parsed is a decoded SCION packet.
type Parsed struct {
	SCION   slayers.SCION
	E2E     *slayers.EndToEndExtn
	UDP     *slayers.UDP
	SCMP    *slayers.SCMP
	RawPath []byte
	Payload []byte
}

// Parse decodes a packet with the SCION library (each call uses fresh layers).
func Parse(b []byte) (*Parsed, error) {
	var (
		sl   slayers.SCION
		hbh  slayers.HopByHopExtnSkipper
		e2e  slayers.EndToEndExtn
		udp  slayers.UDP
		scmp slayers.SCMP
	)
	parser := gopacket.NewDecodingLayerParser(slayers.LayerTypeSCION, &sl, &hbh, &e2e, &udp, &scmp)
	parser.IgnoreUnsupported = true
	decoded := make([]gopacket.LayerType, 0, 4)
	if err := parser.DecodeLayers(b, &decoded); err != nil {
		return nil, err
	}
	p := &Parsed{SCION: sl}
	for _, t := range decoded {
		switch t {
		case slayers.LayerTypeEndToEndExtn:
			e := e2e
			p.E2E = &e
		case slayers.LayerTypeSCIONUDP:
			u := udp
			p.UDP = &u
			p.Payload = udp.Payload
		case slayers.LayerTypeSCMP:
			s := scmp
			p.SCMP = &s
			p.Payload = scmp.Payload
		}
	}
	if sl.Path != nil {
		p.RawPath = make([]byte, sl.Path.Len())
		if err := sl.Path.SerializeTo(p.RawPath); err != nil {
			return nil, err
		}
	}
	return p, nil
}

// FakeDaemon is a DRKey source deriving keys from a fixed secret with the
// library's own key-derivation functions (the rest of the daemon API is not
// used by the code under test).
type FakeDaemon struct {
	daemon.Connector
	Calls int
	Fail  bool
}

func (d *FakeDaemon) hostAS(meta drkey.HostASMeta) drkey.HostASKey {
	h := sha256.Sum256([]byte(fmt.Sprintf("%v|%v|%v|%s", meta.ProtoId, meta.SrcIA, meta.DstIA, meta.SrcHost)))
	k := drkey.HostASKey{ProtoId: meta.ProtoId, SrcIA: meta.SrcIA, DstIA: meta.DstIA, SrcHost: meta.SrcHost}
	k.Epoch = drkey.Epoch{Validity: cppki.Validity{NotBefore: time.Date(1999, 1, 1, 0, 0, 0, 0, time.UTC), NotAfter: time.Date(2100, 1, 1, 0, 0, 0, 0, time.UTC)}}
	copy(k.Key[:], h[:16])
	return k
}

func (d *FakeDaemon) DRKeyGetHostASKey(ctx context.Context, meta drkey.HostASMeta) (drkey.HostASKey, error) {
	d.Calls++
	if d.Fail {
		return drkey.HostASKey{}, fmt.Errorf("drkey service unavailable")
	}
	return d.hostAS(meta), nil
}

func (d *FakeDaemon) DRKeyGetHostHostKey(ctx context.Context, meta drkey.HostHostMeta) (drkey.HostHostKey, error) {
	d.Calls++
	if d.Fail {
		return drkey.HostHostKey{}, fmt.Errorf("drkey service unavailable")
	}
	ha := d.hostAS(drkey.HostASMeta{ProtoId: meta.ProtoId, Validity: meta.Validity, SrcIA: meta.SrcIA, DstIA: meta.DstIA, SrcHost: meta.SrcHost})
	key, err := (&generic.Deriver{Proto: meta.ProtoId}).DeriveHostHost(meta.DstHost, ha.Key)
	if err != nil {
		return drkey.HostHostKey{}, err
	}
	return drkey.HostHostKey{ProtoId: meta.ProtoId, Epoch: ha.Epoch, SrcIA: meta.SrcIA, DstIA: meta.DstIA, SrcHost: meta.SrcHost, DstHost: meta.DstHost, Key: key}, nil
}

// HostHostKey returns the key both ends derive for (server, client).
func (d *FakeDaemon) HostHostKey(srvIA, cliIA addr.IA, srvHost, cliHost string) []byte {
	if scion.UseMockKeys() {
		return make([]byte, 16)
	}
	k, err := d.DRKeyGetHostHostKey(context.Background(), drkey.HostHostMeta{ProtoId: scion.DRKeyProtocolTS, SrcIA: srvIA, DstIA: cliIA, SrcHost: srvHost, DstHost: cliHost})
	if err != nil {
		panic(err)
	}
	d.Calls--
	return k.Key[:]
}

// SCIONTransport wraps the reference server's NTP replies into SCION/UDP
// packets addressed back to the requester (swapped addresses and ports,
// library-reversed path).
type SCIONTransport struct{}

type scionMeta struct{ pr *Parsed }

func (SCIONTransport) Unwrap(d *vnet.Datagram) ([]byte, any, bool) {
	pr, err := Parse(d.Data)
	if err != nil || pr.UDP == nil {
		return nil, nil, false
	}
	return pr.UDP.Payload, scionMeta{pr}, true
}

func (SCIONTransport) Wrap(meta any, payload []byte) []byte {
	pr := meta.(scionMeta).pr
	sl := pr.SCION
	src, _ := netip.AddrFromSlice(sl.RawDstAddr)
	dst, _ := netip.AddrFromSlice(sl.RawSrcAddr)
	var raw []byte
	ptype := sl.PathType
	if sl.Path != nil {
		rp, err := sl.Path.Reverse()
		if err != nil {
			panic(err)
		}
		raw = make([]byte, rp.Len())
		if err := rp.SerializeTo(raw); err != nil {
			panic(err)
		}
		ptype = rp.Type()
	}
	p := &Pkt{SrcIA: sl.DstIA, DstIA: sl.SrcIA, SrcHost: src, DstHost: dst, RawPath: raw, PathType: ptype, L4: "udp", SrcPort: pr.UDP.DstPort, DstPort: pr.UDP.SrcPort, Payload: payload}
	if raw == nil {
		p.RawPath = []byte{}
	}
	return p.Bytes()
}

// UDPFront returns a UDP header (length covering payload only, checksum zero)
// followed by payload, for use as Pkt.Front.
func UDPFront(srcPort, dstPort uint16, payload []byte) []byte {
	b := make([]byte, 8, 8+len(payload))
	b[0], b[1] = byte(srcPort>>8), byte(srcPort)
	b[2], b[3] = byte(dstPort>>8), byte(dstPort)
	l := 8 + len(payload)
	b[4], b[5] = byte(l>>8), byte(l)
	return append(b, payload...)
}
