package kit

import (
	"context"
	"net/netip"

	"github.com/scionproto/scion/pkg/addr"

	"example.com/scion-time/core/server"
	"example.com/scion-time/net/ntske"
	"example.com/scion-time/net/scion"

	"verif.local/shim/vnet"
	"verif.local/world"
)

// SCION test topology constants.
var (
	SrvIA   = addr.MustParseIA("1-ff00:0:111")
	CliIA   = addr.MustParseIA("1-ff00:0:112")
	SrvHost = netip.MustParseAddr("10.0.0.1")
	CliHost = netip.MustParseAddr("10.0.0.2")
	Router  = netip.MustParseAddrPort("10.0.0.254:31000") // underlay last hop / next hop
)

const SrvPort = 10123

// SCIONWorld runs the repository's SCION listener on the service port and on
// the end-host port of one host.
type SCIONWorld struct {
	W        *world.World
	Daemon   *FakeDaemon
	Provider *ntske.Provider
	Svc, EH  *vnet.UDPConn
	Auth     bool
	HostAddr netip.Addr
}

// NewSCIONWorld starts both listeners. With auth the listeners get a DRKey fetcher.
func NewSCIONWorld(w *world.World, host netip.Addr, auth bool, provider *ntske.Provider) *SCIONWorld {
	s := &SCIONWorld{W: w, Daemon: &FakeDaemon{}, Provider: provider, Auth: auth, HostAddr: host}
	s.Svc = s.Start(SrvPort)
	s.EH = s.Start(scion.EndhostPort)
	return s
}

// Start (re)starts one listener on a fresh socket bound to port.
func (s *SCIONWorld) Start(port int) *vnet.UDPConn {
	lc := vnet.ListenConfig{}
	pc, err := lc.ListenPacket(context.Background(), "udp", netip.AddrPortFrom(s.HostAddr, uint16(port)).String())
	if err != nil {
		panic(err)
	}
	c := pc.(*vnet.UDPConn)
	var f *scion.Fetcher
	if s.Auth {
		f = scion.NewFetcher(s.Daemon)
	}
	world.FreshRegistry()
	s.W.Go("scionserver", func() {
		server.VerifRunSCIONServer(context.Background(), s.W.Log, c, "", SrvPort, 0, f, s.Provider)
	})
	s.W.Settle()
	return c
}

// Send delivers raw bytes from the router to one of the sockets and returns what the listeners wrote.
func (s *SCIONWorld) Send(sock *vnet.UDPConn, from netip.AddrPort, b []byte) []*vnet.Datagram {
	before := s.W.Net.NumSent()
	sock.Deliver(&vnet.Datagram{From: from, To: sock.Local(), Data: b, RxTime: s.W.Clock.Peek()})
	s.W.Settle()
	return s.W.Net.SentSince(before)
}
