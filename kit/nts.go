// Package kit holds message builders and small helpers shared by harnesses.
package kit

import (
	"encoding/binary"
	"time"

	"github.com/miscreant/miscreant.go"

	"example.com/scion-time/net/ntp"
	"example.com/scion-time/net/nts"
	"example.com/scion-time/net/ntske"
)

// Session is the NTS material of one client/server association.
type Session struct {
	C2S, S2C []byte
	Provider *ntske.Provider
}

// NewSession creates keys and a provider (call inside the bubble: the provider reads time.Now).
func NewSession(seed byte) *Session {
	s := &Session{C2S: make([]byte, 32), S2C: make([]byte, 32), Provider: ntske.NewProvider()}
	for i := range s.C2S {
		s.C2S[i] = seed + byte(i)
		s.S2C[i] = seed ^ 0x5a + byte(3*i)
	}
	return s
}

// Cookie seals a fresh cookie under the provider's current key.
func (s *Session) Cookie() []byte {
	key := s.Provider.Current()
	sc := ntske.ServerCookie{Algo: ntske.AES_SIV_CMAC_256, S2C: s.S2C, C2S: s.C2S}
	ec, err := sc.EncryptWithNonce(key.Value, key.ID)
	if err != nil {
		panic(err)
	}
	return ec.Encode()
}

// Data returns key-exchange data holding n fresh cookies.
func (s *Session) Data(n int) ntske.Data {
	d := ntske.Data{C2sKey: s.C2S, S2cKey: s.S2C, Server: "10.0.0.1", Port: 123, Algo: ntske.AES_SIV_CMAC_256}
	for i := 0; i < n; i++ {
		d.Cookie = append(d.Cookie, s.Cookie())
	}
	return d
}

// Request encodes an NTS-protected request around the given 48-byte header
// using the project's own encoder; pool is the client's pool level (cookies
// held before this request), so 8-pool placeholders are added.
func (s *Session) Request(hdr []byte, pool int) (pkt []byte, id []byte) {
	d := s.Data(pool)
	req, id := nts.NewRequestPacket(d)
	buf := append(make([]byte, 0, nts.MaxPacketLen), hdr[:ntp.PacketLen]...)
	nts.EncodePacket(&buf, &req)
	return buf, id
}

// ClientHeader returns a basic client request header (version 4, mode 3).
func ClientHeader(tx time.Time) []byte {
	var p ntp.Packet
	p.SetVersion(4)
	p.SetMode(ntp.ModeClient)
	p.TransmitTime = ntp.Time64FromTime(tx)
	var b []byte
	ntp.EncodePacket(&b, &p)
	return b
}

// Ext is one NTS extension field as it goes on the wire.
type Ext struct {
	Type uint16
	Body []byte
	// RawLen, when non-zero, is written into the length field instead of 4+len(Body) padded.
	RawLen int
	// NoPad leaves the body unpadded (length field 4+len(Body), possibly not a multiple of 4).
	NoPad bool
}

// Seal builds hdr (48 bytes) + fields + an authenticator that verifies under key
// (AES-SIV-CMAC-256 over everything before it, 16-byte nonce), without going
// through the project's encoder: field bodies and lengths are free. plain is the
// authenticator's plaintext (encrypted extension fields, e.g. cookies of a response).
func Seal(hdr []byte, fields []Ext, plain []byte, key []byte, nonceSeed byte) []byte {
	b := append([]byte{}, hdr[:ntp.PacketLen]...)
	for _, f := range fields {
		b = append(b, EncodeExt(f)...)
	}
	aead, err := miscreant.NewAEAD("AES-CMAC-SIV", key, 16)
	if err != nil {
		panic(err)
	}
	nonce := make([]byte, 16)
	for i := range nonce {
		nonce[i] = nonceSeed + byte(i)
	}
	ct := aead.Seal(nil, nonce, plain, b)
	body := make([]byte, 4, 4+16+len(ct)+3)
	binary.BigEndian.PutUint16(body, 16)
	binary.BigEndian.PutUint16(body[2:], uint16(len(ct)))
	body = append(body, nonce...)
	body = append(body, ct...)
	return append(b, EncodeExt(Ext{Type: 0x0404, Body: body})...)
}

// EncodeExt encodes one extension field (body padded to a multiple of 4).
func EncodeExt(f Ext) []byte {
	pad := (4 - len(f.Body)%4) % 4
	if f.NoPad {
		pad = 0
	}
	l := 4 + len(f.Body) + pad
	if f.RawLen != 0 {
		l = f.RawLen
	}
	out := make([]byte, 4, 4+len(f.Body)+pad)
	binary.BigEndian.PutUint16(out, f.Type)
	binary.BigEndian.PutUint16(out[2:], uint16(l))
	out = append(out, f.Body...)
	return append(out, make([]byte, pad)...)
}
