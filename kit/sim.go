package kit

import (
	"fmt"
	"net/netip"
	"time"

	"example.com/scion-time/net/ntp"

	"verif.local/mc"
	"verif.local/shim/vnet"
	"verif.local/world"
)

// Transport wraps and unwraps NTP payloads (identity for IP, SCION/UDP for SCION).
type Transport interface {
	// Unwrap returns the NTP payload of a request datagram and what is needed to address the reply.
	Unwrap(d *vnet.Datagram) (payload []byte, meta any, ok bool)
	// Wrap builds the reply datagram bytes around payload.
	Wrap(meta any, payload []byte) []byte
}

type ipTransport struct{}

func (ipTransport) Unwrap(d *vnet.Datagram) ([]byte, any, bool) { return d.Data, nil, true }
func (ipTransport) Wrap(_ any, p []byte) []byte                 { return p }

// IPTransport is the identity transport.
var IPTransport Transport = ipTransport{}

// Exch is the ground truth of one request that reached the server.
type Exch struct {
	N      int
	Req    ntp.Packet
	Sock   *vnet.UDPConn
	CTx    time.Time // kernel transmit timestamp handed to the client (zero: none)
	SendAt time.Time // client clock when the request left
	Theta  time.Duration
	Fwd    time.Duration
	SRx    time.Time // server clock
	STx    time.Time // server clock: transmit time recorded for this exchange
	STxAlt time.Time // software transmit time carried by the (basic) reply itself, when it differs
	Resp   ntp.Packet
	// For interleaved replies: the exchange whose transmit time the reply carries.
	Carries *Exch
	// Deliveries of the reply: client receive stamps and backward delays.
	CRx      []time.Time
	CRxSoft  []bool // the delivery carried no kernel receive timestamp: the client reads its clock when it gets to the datagram
	Bwd      []time.Duration
	Accepted bool
	// NoKernelTx: the (real) server could not read a kernel transmit timestamp
	// for this exchange; its record must have been dropped, so no later
	// interleaved reply may carry this exchange.
	NoKernelTx bool
	// Unsync: the server reported itself unsynchronised in this reply (leap
	// indicator 3, stratum 0); a client discards such a reply after matching it.
	Unsync bool
}

// Reply is a reply datagram on its way to the client.
type Reply struct {
	E    *Exch
	D    *vnet.Datagram
	Bwd  time.Duration
	Left time.Time // bubble time at which it left the server
}

// Sim is a protocol-conformant reference server plus the network between it
// and one client; every decision is taken through X.
type Sim struct {
	W      *world.World
	X      *mc.X
	T      Transport
	Server netip.AddrPort
	Theta  time.Duration
	Proc   time.Duration
	Exchs  []*Exch
	store  []*Exch // last 8 exchanges, reference server state
	Held   []*Reply
	seen   int // datagrams of Net.Sent already looked at
	TxTS   bool
	RxTS   bool
	// Unsync makes the next Serve answer as an unsynchronised server (one exchange).
	Unsync bool
	// Reqs is every request seen on the wire (also dropped ones).
	Reqs []*vnet.Datagram
	// stamps handed out per sent datagram sequence number
	TxStamps  map[int]time.Time
	SendClock map[int]time.Time
	SendTrue  map[int]time.Time // bubble time of each send
}

// NewSim installs the send hook (transmit timestamps of the client socket).
func NewSim(w *world.World, x *mc.X, t Transport, server netip.AddrPort) *Sim {
	s := &Sim{W: w, X: x, T: t, Server: server, Proc: 20 * time.Microsecond, TxTS: true, RxTS: true, TxStamps: map[int]time.Time{}, SendClock: map[int]time.Time{}, SendTrue: map[int]time.Time{}}
	w.Net.OnSend = func(c *vnet.UDPConn, d *vnet.Datagram) *vnet.TxStamp {
		// the kernel stamps a packet after the sender's last clock reading, never at
		// the same instant (the interleaved protocol relies on the two being
		// distinguishable: a basic reply echoes the software time, the next
		// interleaved request carries the kernel time)
		s.SendClock[d.Seq] = w.Clock.Peek()
		ts := w.Clock.Peek().Add(2 * time.Microsecond)
		s.SendTrue[d.Seq] = time.Now()
		if !s.TxTS {
			return &vnet.TxStamp{None: true}
		}
		s.TxStamps[d.Seq] = ts
		return &vnet.TxStamp{TS: ts, ID: 0}
	}
	return s
}

// Depart lets virtual time reach the instant at which the kernel stamped (and
// sent) the datagram: 2 us after the sender's clock reading.
func (s *Sim) Depart(d *vnet.Datagram) {
	if wait := time.Until(s.SendTrue[d.Seq].Add(2 * time.Microsecond)); wait > 0 {
		time.Sleep(wait)
	}
}

// NewRequests returns the datagrams written since the last call.
func (s *Sim) NewRequests() []*vnet.Datagram {
	ds := s.W.Net.SentSince(s.seen)
	s.seen += len(ds)
	s.Reqs = append(s.Reqs, ds...)
	return ds
}

// Serve lets the reference server process a request that arrives after fwd:
// it returns the reply (not yet delivered).
func (s *Sim) Serve(d *vnet.Datagram, fwd time.Duration) *Reply {
	payload, meta, ok := s.T.Unwrap(d)
	if !ok {
		return nil
	}
	var req ntp.Packet
	if err := ntp.DecodePacket(&req, payload); err != nil {
		return nil
	}
	e := &Exch{N: len(s.Exchs), Req: req, Sock: d.Sock, Theta: s.Theta, Fwd: fwd, SendAt: s.SendClock[d.Seq], CTx: s.TxStamps[d.Seq]}
	s.Depart(d)
	time.Sleep(fwd)
	e.Fwd = time.Since(s.SendTrue[d.Seq].Add(2 * time.Microsecond)) // a duplicate arrives later than the first copy
	e.SRx = s.W.Clock.Peek().Add(s.Theta)
	// receive timestamps are unique per client
	for _, o := range s.store {
		if ntp.Time64FromTime(o.SRx) == ntp.Time64FromTime(e.SRx) {
			e.SRx = e.SRx.Add(1)
		}
	}
	time.Sleep(s.Proc)
	e.STx = s.W.Clock.Peek().Add(s.Theta)
	var resp ntp.Packet
	resp.SetVersion(4)
	resp.SetMode(ntp.ModeServer)
	resp.Stratum = 1
	resp.Poll = req.Poll
	resp.ReceiveTime = ntp.Time64FromTime(e.SRx)
	var named *Exch
	for _, o := range s.store {
		if ntp.Time64FromTime(o.SRx) == req.OriginTime {
			named = o
		}
	}
	if named != nil && req.ReceiveTime != req.TransmitTime {
		resp.OriginTime = req.ReceiveTime
		resp.TransmitTime = ntp.Time64FromTime(named.STx)
		e.Carries = named
	} else {
		resp.OriginTime = req.TransmitTime
		resp.TransmitTime = ntp.Time64FromTime(e.STx)
	}
	if s.Unsync {
		s.Unsync = false
		e.Unsync = true
		resp.SetLeapIndicator(ntp.LeapIndicatorUnknown)
		resp.Stratum = 0
	}
	e.Resp = resp
	s.store = append(s.store, e)
	if len(s.store) > 8 {
		s.store = s.store[1:]
	}
	s.Exchs = append(s.Exchs, e)
	var b []byte
	ntp.EncodePacket(&b, &resp)
	out := &vnet.Datagram{From: s.Server, To: d.From, Data: s.T.Wrap(meta, b), Tag: fmt.Sprintf("reply%d", e.N)}
	return &Reply{E: e, D: out, Left: time.Now()}
}

// Deliver hands a reply to sock after bwd (measured from now) with or without
// a kernel receive timestamp, then settles.
func (s *Sim) Deliver(r *Reply, sock *vnet.UDPConn, bwd time.Duration) {
	time.Sleep(bwd)
	d := *r.D
	stamp := s.W.Clock.Peek()
	if s.RxTS {
		d.RxTime = stamp
	}
	r.E.CRx = append(r.E.CRx, stamp)
	r.E.CRxSoft = append(r.E.CRxSoft, !s.RxTS)
	r.E.Bwd = append(r.E.Bwd, time.Since(r.Left)-0)
	sock.Deliver(&d)
	s.W.Settle()
}

// Tuple is what the client handed to its filter.
type Tuple struct{ T0, T1, T2, T3 time.Time }

// RecFilter records the timestamps the client combines and returns their plain offset.
type RecFilter struct {
	Calls  []Tuple
	Resets int
}

func (f *RecFilter) Do(t0, t1, t2, t3 time.Time) time.Duration {
	f.Calls = append(f.Calls, Tuple{t0, t1, t2, t3})
	return ntp.ClockOffset(t0, t1, t2, t3)
}
func (f *RecFilter) Reset() { f.Resets++ }

func near(a, b time.Time, tol time.Duration) bool {
	d := a.Sub(b)
	return d <= tol && d >= -tol
}

// Match finds the exchange all four timestamps of tu belong to and returns it
// with the delivery index; it returns nil when no single exchange explains
// the tuple. fallbackT0/T3: the client could not read a kernel timestamp and
// used its clock (a later reading), which is accepted within slack.
func (s *Sim) Match(tu Tuple) (*Exch, int) {
	const tol = 2 * time.Nanosecond
	const slack = 200 * time.Nanosecond
	for _, e := range s.Exchs {
		if !near(tu.T1, e.SRx, tol) || !(near(tu.T2, e.STx, tol) || (!e.STxAlt.IsZero() && near(tu.T2, e.STxAlt, tol))) {
			continue
		}
		t0ok := !e.CTx.IsZero() && near(tu.T0, e.CTx, tol)
		if e.CTx.IsZero() {
			// software fallback: some clock reading of the client's own between its
			// pre-send reading and the arrival of the reply (how good it is shows in
			// the offset bound, which is judged separately)
			t0ok = !tu.T0.Before(e.sendLower().Add(-tol)) && len(e.CRx) > 0 && !tu.T0.After(e.CRx[len(e.CRx)-1])
		}
		if !t0ok {
			continue
		}
		for i, rx := range e.CRx {
			late := slack
			if i < len(e.CRxSoft) && e.CRxSoft[i] {
				// without a kernel receive timestamp the client's own reading may come up to
				// one poll timeout after the arrival (it may still be waiting for its
				// transmit timestamp); a later t3 only widens the measured round-trip delay
				late = 2 * time.Millisecond
			}
			if near(tu.T3, rx, tol) || (!tu.T3.Before(rx) && tu.T3.Sub(rx) <= late) {
				return e, i
			}
		}
	}
	return nil, -1
}

func (e *Exch) sendLower() time.Time { return e.SendAt }
