package kit

import (
	"crypto/ecdsa"
	"crypto/elliptic"
	"crypto/rand"
	"crypto/tls"
	"crypto/x509"
	"crypto/x509/pkix"
	"math/big"
	"net"
	"sync"
	"time"
)

var (
	certOnce sync.Once
	cert     tls.Certificate
	pool     *x509.CertPool
)

// TestCert returns a process-wide self-signed certificate for "ntske.test"
// (and 10.0.0.1) and a pool trusting it.
func TestCert() (tls.Certificate, *x509.CertPool) {
	certOnce.Do(func() {
		key, err := ecdsa.GenerateKey(elliptic.P256(), rand.Reader)
		if err != nil {
			panic(err)
		}
		tmpl := &x509.Certificate{
			SerialNumber:          big.NewInt(1),
			Subject:               pkix.Name{CommonName: "ntske.test"},
			NotBefore:             time.Date(1999, 1, 1, 0, 0, 0, 0, time.UTC),
			NotAfter:              time.Date(2199, 1, 1, 0, 0, 0, 0, time.UTC),
			KeyUsage:              x509.KeyUsageDigitalSignature | x509.KeyUsageCertSign,
			ExtKeyUsage:           []x509.ExtKeyUsage{x509.ExtKeyUsageServerAuth},
			BasicConstraintsValid: true,
			IsCA:                  true,
			DNSNames:              []string{"ntske.test"},
			IPAddresses:           []net.IP{net.IPv4(10, 0, 0, 1)},
		}
		der, err := x509.CreateCertificate(rand.Reader, tmpl, tmpl, &key.PublicKey, key)
		if err != nil {
			panic(err)
		}
		cert = tls.Certificate{Certificate: [][]byte{der}, PrivateKey: key}
		c, _ := x509.ParseCertificate(der)
		pool = x509.NewCertPool()
		pool.AddCert(c)
	})
	return cert, pool
}

// ClientTLS is the client configuration used by the harnesses (TLS 1.3, the
// test CA, server name ntske.test).
func ClientTLS() tls.Config {
	_, p := TestCert()
	return tls.Config{ServerName: "ntske.test", RootCAs: p, MinVersion: tls.VersionTLS13}
}

// ServerTLS returns a server configuration offering the given ALPN protocols.
func ServerTLS(alpn ...string) *tls.Config {
	c, _ := TestCert()
	return &tls.Config{Certificates: []tls.Certificate{c}, NextProtos: alpn, MinVersion: tls.VersionTLS13}
}
