// Package sched is the lock-level cooperative scheduler: harness threads park
// at every scheduling point (mutex acquisition, atomic compare-and-swap,
// clock reading) on a bubble channel; the explorer waits for quiescence,
// computes the enabled set and releases exactly one thread - a
// preemption-bounded choice. Goroutines that are not registered threads pass
// through scheduling points unhindered.
package sched

import (
	"bytes"
	"runtime"
	"strconv"
	"sync"
	"sync/atomic"
	"testing/synctest"

	"verif.local/mc"
)

// Lockable is what a scheduling point of kind "lock" waits for.
type Lockable interface{ Held() bool }

type op struct {
	kind string
	mu   Lockable
}

// T is a scheduled thread.
type T struct {
	Name    string
	id      int
	wake    chan struct{}
	pending *op
	Done    bool
	Panic   any
	Stack   []byte
}

// S is the scheduler of one execution.
type S struct {
	x       *mc.X
	mu      sync.Mutex
	threads []*T
	byGid   map[int64]*T
	last    *T
	Done    chan struct{}
	// Idle is called when no thread is enabled but some are unfinished; it
	// may produce an environment event (return true) or report a deadlock.
	Idle func() bool
	Steps int
	// Log records "<thread>:<kind>" per release.
	Log []string
}

var active atomic.Pointer[S]

// New installs a scheduler for the current execution.
func New(x *mc.X) *S {
	s := &S{x: x, byGid: map[int64]*T{}, Done: make(chan struct{})}
	active.Store(s)
	return s
}

// Close uninstalls the scheduler and lets parked threads end.
func (s *S) Close() {
	active.CompareAndSwap(s, nil)
	select {
	case <-s.Done:
	default:
		close(s.Done)
	}
}

func goid() int64 {
	var buf [64]byte
	b := buf[:runtime.Stack(buf[:], false)]
	b = bytes.TrimPrefix(b, []byte("goroutine "))
	if i := bytes.IndexByte(b, ' '); i > 0 {
		n, _ := strconv.ParseInt(string(b[:i]), 10, 64)
		return n
	}
	return -1
}

// Go starts a scheduled thread; it parks at an initial point before running f.
func (s *S) Go(name string, f func()) *T {
	t := &T{Name: name, id: len(s.threads), wake: make(chan struct{})}
	s.threads = append(s.threads, t)
	go func() {
		s.mu.Lock()
		s.byGid[goid()] = t
		s.mu.Unlock()
		defer func() {
			if v := recover(); v != nil {
				t.Panic = v
				buf := make([]byte, 16<<10)
				t.Stack = buf[:runtime.Stack(buf, false)]
			}
			t.Done = true
		}()
		s.park(t, &op{kind: "start"})
		f()
	}()
	return t
}

func (s *S) park(t *T, o *op) {
	t.pending = o
	select {
	case <-t.wake:
	case <-s.Done:
		runtime.Goexit()
	}
}

// Point is called by the shims. It returns at once for unregistered goroutines.
func Point(kind string, mu Lockable) bool {
	s := active.Load()
	if s == nil {
		return false
	}
	s.mu.Lock()
	t := s.byGid[goid()]
	s.mu.Unlock()
	if t == nil {
		return false
	}
	s.park(t, &op{kind: kind, mu: mu})
	return true
}

// Active reports whether a scheduler is installed.
func Active() bool { return active.Load() != nil }

// Run releases threads one at a time until all are done. It returns false on deadlock.
func (s *S) Run() bool {
	for {
		synctest.Wait()
		var enabled []*T
		alldone := true
		for _, t := range s.threads {
			if t.Done {
				continue
			}
			alldone = false
			if t.pending == nil {
				continue // blocked outside the scheduler
			}
			if t.pending.kind == "lock" && t.pending.mu.Held() {
				continue
			}
			enabled = append(enabled, t)
		}
		if alldone {
			return true
		}
		if len(enabled) == 0 {
			if s.Idle != nil && s.Idle() {
				continue
			}
			return false
		}
		// canonical order: the thread that ran last first (if enabled), then ascending ids
		lastEnabled := false
		for i, t := range enabled {
			if t == s.last {
				copy(enabled[1:i+1], enabled[:i])
				enabled[0] = t
				lastEnabled = true
			}
		}
		var cost func(int) int
		if lastEnabled {
			cost = func(int) int { return 1 } // switching away from a runnable thread is a preemption
		} else {
			cost = func(int) int { return 0 }
		}
		i := 0
		if len(enabled) > 1 {
			i = s.x.ChooseCost(len(enabled), "sched", cost)
		}
		t := enabled[i]
		if s.x.Tracing() {
			s.x.Logf("run %s at %s", t.Name, t.pending.kind)
		}
		s.Log = append(s.Log, t.Name+":"+t.pending.kind)
		t.pending = nil
		s.last = t
		s.Steps++
		t.wake <- struct{}{}
	}
}

// Threads returns the scheduled threads.
func (s *S) Threads() []*T { return s.threads }

// Current returns the scheduled thread of the calling goroutine (nil if none).
func Current() *T {
	s := active.Load()
	if s == nil {
		return nil
	}
	s.mu.Lock()
	defer s.mu.Unlock()
	return s.byGid[goid()]
}

// ID returns the thread's index in creation order.
func (t *T) ID() int { return t.id }
